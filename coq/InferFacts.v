(* InferFacts.v — proofs about Infer.v (C06). *)
From Coq Require Import List NArith ZArith Bool String Lia.
From Spox Require Import Infer.
Import ListNotations.
Open Scope N_scope.

(* ------------------------------------------------------------------------------------------------ generalities *)

Lemma dim_okb_spec n d : dim_okb n d = true <-> dim_ok n d.
Proof. destruct d; simpl; try tauto. apply N.eqb_eq. Qed.

Lemma dims_okb_spec l : forall ds, dims_okb l ds = true <-> Forall2 dim_ok l ds.
Proof.
  induction l as [|n l IH]; intros [|d ds]; simpl.
  - split; intro H; [constructor | reflexivity].
  - split; intro H; [discriminate | inversion H].
  - split; intro H; [discriminate | inversion H].
  - rewrite andb_true_iff, dim_okb_spec, IH. split; intro H.
    + destruct H. constructor; assumption.
    + inversion H; subst. split; assumption.
Qed.

Lemma elem_eqb_eq a b : elem_eqb a b = true <-> a = b.
Proof. destruct a, b; simpl; split; intro H; try reflexivity; try discriminate. Qed.

Lemma conformsb_spec v t : conformsb v t = true <-> conforms v t.
Proof.
  destruct t as [e [ds|]|c]; simpl.
  - rewrite andb_true_iff, elem_eqb_eq, dims_okb_spec. tauto.
  - rewrite andb_true_iff, elem_eqb_eq. tauto.
  - split; [discriminate | tauto].
Qed.

Lemma conforms_optb_spec v t : conforms_optb v t = true <-> conforms_opt v t.
Proof. destruct t; simpl; [apply conformsb_spec | tauto]. Qed.

Fixpoint all2b (vs : list val) (ts : list ity) : bool :=
  match vs, ts with
  | [], [] => true
  | v :: vs, t :: ts => conforms_optb v t && all2b vs ts
  | _, _ => false
  end.
Lemma all2b_spec vs ts : Forall2 conforms_opt vs ts -> all2b vs ts = true.
Proof. induction 1; simpl; [reflexivity|]. apply andb_true_intro. split; [apply conforms_optb_spec; assumption | assumption]. Qed.

Lemma F2_length {A B} (R : A -> B -> Prop) l l' : Forall2 R l l' -> List.length l = List.length l'.
Proof. induction 1; simpl; congruence. Qed.

Lemma F2_removelast {A B} (R : A -> B -> Prop) l l' : Forall2 R l l' -> Forall2 R (removelast l) (removelast l').
Proof.
  induction 1 as [|a b l l' Hab H IH]; simpl; [constructor|].
  destruct H; [constructor | constructor; [assumption | exact IH]].
Qed.

Lemma F2_set_nth l ds i k : Forall2 dim_ok l ds -> Forall2 dim_ok (set_nth l i k) (set_nth ds i DUnk).
Proof.
  intros H. revert i. induction H as [|a b l l' Hab H IH]; intros i; simpl; [constructor|].
  destruct i; constructor; simpl; auto.
Qed.

Lemma prod_single n : prod [n] = n.
Proof. unfold prod. simpl. apply N.mul_1_r. Qed.

Lemma dlen_1 (l : list dim) : (dlen l =? 1) = true -> exists d, l = [d].
Proof.
  unfold dlen. intros H. apply N.eqb_eq in H. destruct l as [|d [|d' l]]; simpl in H; try lia. exists d. reflexivity.
Qed.

Ltac inv H := inversion H; subst; clear H.
Ltac inv_ok :=
  repeat match goal with
  | H : Ok _ = Ok _ |- _ => inv H
  | H : Some _ = Some _ |- _ => inv H
  | H : Err _ = Ok _ |- _ => discriminate H
  | H : None = Some _ |- _ => discriminate H
  | H : Forall2 _ (_ :: _) _ |- _ => inv H
  | H : Forall2 _ [] _ |- _ => inv H
  | H : Forall2 _ _ (_ :: _) |- _ => inv H
  | H : Forall2 _ _ [] |- _ => inv H
  end.
Ltac one := repeat (constructor; simpl; auto).

(* ------------------------------------------------------------------------------ operators that are sound as is *)

Theorem sound_ArrayFeatureExtractor x y vx vy :
  conforms_opt vx x -> conforms_opt vy y ->
  sound (infer_ArrayFeatureExtractor x y) (rt_ArrayFeatureExtractor vx vy).
Proof.
  intros Hx Hy tys outs Hi Hr. unfold infer_ArrayFeatureExtractor in Hi. unfold rt_ArrayFeatureExtractor in Hr.
  destruct vx as [ex sx], vy as [ey sy].
  destruct (negb (elem_eqb ey I64)); [discriminate|].
  destruct (negb (numeric4 ex || elem_eqb ex Str)); [discriminate|].
  destruct (negb (fully_typed [x; y])) eqn:Hft.
  - inv_ok. destruct sx as [|a [|b sx]]; inv_ok; one.
  - destruct x as [[e1 [d1|]|c1]|]; try discriminate; destruct y as [[e2 [d2|]|c2]|]; try discriminate.
    simpl in Hx, Hy. destruct Hx as [He1 Hs1], Hy as [He2 Hs2]. simpl in He1, He2, Hs1, Hs2. subst.
    destruct (dlen d1 <? 1) eqn:H1; [discriminate|].
    destruct (dlen d2 =? 1) eqn:H2; simpl in Hi; [|discriminate].
    apply dlen_1 in H2. destruct H2 as [d ->]. inv_ok. rewrite prod_single in Hr.
    destruct d1 as [|a [|b d1]]; [discriminate H1 | |].
    + simpl in Hi. inv_ok. one.
    + replace (dlen (a :: b :: d1) =? 1) with false in Hi
        by (symmetry; apply N.eqb_neq; unfold dlen; simpl List.length; lia).
      inv_ok. constructor; [|constructor]. simpl. split; [reflexivity|].
      change (Forall2 dim_ok (removelast (x0 :: x1 :: l0) ++ [x])%list (removelast (a :: b :: d1) ++ [d])%list).
      apply Forall2_app; [apply F2_removelast | one].
      constructor; [assumption|constructor; assumption].
Qed.

Theorem sound_Binarizer x v : conforms_opt v x -> sound (infer_Binarizer x) (rt_Binarizer v).
Proof.
  intros Hx tys outs Hi Hr. unfold infer_Binarizer in Hi. unfold rt_Binarizer in Hr.
  destruct (numeric4 (fst v)); inv_ok. one.
Qed.

Theorem sound_CategoryMapper x c1 c2 v : conforms_opt v x -> sound (infer_CategoryMapper x c1 c2) (rt_CategoryMapper v).
Proof.
  intros Hx tys outs Hi Hr. unfold infer_CategoryMapper in Hi. unfold rt_CategoryMapper in Hr.
  destruct v as [e s]. simpl in Hr.
  destruct (negb (fully_typed [x])).
  - inv_ok. destruct e; inv_ok; one.
  - destruct c1 as [n1|]; [|discriminate]. destruct c2 as [n2|]; [|discriminate].
    destruct (negb (n1 =? n2)); [discriminate|].
    destruct x as [[ex sx|c]|]; try discriminate. simpl in Hx. destruct Hx as [He Hs]. simpl in He, Hs. subst.
    destruct ex; inv_ok; one.
Qed.

Theorem sound_Imputer x f i v : conforms_opt v x -> sound (infer_Imputer x f i) (rt_Imputer v).
Proof.
  intros Hx tys outs Hi Hr. unfold infer_Imputer in Hi. unfold rt_Imputer in Hr.
  destruct (numeric4 (fst v)); [|discriminate]. inv_ok.
  destruct (negb (fully_typed [x])); [inv_ok; one|].
  destruct x as [[e s|c]|]; try discriminate.
  destruct e, f, i; try discriminate;
    match type of Hi with context [count_mismatch ?a ?b] => destruct (count_mismatch a b) end; inv_ok; one.
Qed.

Theorem sound_OneHotEncoder x ci cs v :
  conforms_opt v x -> sound (infer_OneHotEncoder x ci cs) (rt_OneHotEncoder ci cs v).
Proof.
  intros Hx tys outs Hi Hr. unfold infer_OneHotEncoder in Hi. unfold rt_OneHotEncoder in Hr.
  destruct (negb (numeric4 (fst v) || elem_eqb (fst v) Str)); [discriminate|].
  destruct (negb (fully_typed [x])).
  - inv_ok. destruct ci, cs; inv_ok; one.
  - destruct x as [[e [s|]|c]|]; destruct ci, cs; try discriminate; inv_ok;
      simpl in Hx; destruct Hx as [He Hs]; (constructor; [|constructor]); simpl; (split; [reflexivity|]);
      (apply Forall2_app; [assumption | one]).
Qed.

Theorem sound_Scaler x sc off v : conforms_opt v x -> sound (infer_Scaler x sc off) (rt_Scaler v).
Proof.
  intros Hx tys outs Hi Hr. unfold infer_Scaler in Hi. unfold rt_Scaler in Hr.
  destruct (numeric4 (fst v)); [|discriminate]. inv_ok.
  destruct x as [[e s|c]|]; [| |inv_ok; one].
  - destruct sc, off; try discriminate.
    repeat match type of Hi with context [count_mismatch ?a ?b] => destruct (count_mismatch a b) end; inv_ok.
    simpl in Hx. destruct Hx as [He Hs]. one.
  - destruct sc, off; discriminate.
Qed.

Theorem sound_TreeEnsembleRegressor x nt v :
  conforms_opt v x -> sound (infer_TreeEnsembleRegressor x nt) (rt_TreeEnsembleRegressor nt v).
Proof.
  intros Hx tys outs Hi Hr. unfold infer_TreeEnsembleRegressor in Hi. unfold rt_TreeEnsembleRegressor in Hr.
  destruct v as [e s]. simpl in Hr. destruct (negb (numeric4 e)); [discriminate|].
  destruct (fully_typed [x]).
  - destruct x as [[ex [[|a [|b [|c l]]]|]|c]|]; try discriminate; inv_ok.
    simpl in Hx. destruct Hx as [He Hs]. simpl in Hs. inv_ok.
    destruct nt; inv_ok. one.
  - inv_ok. destruct s as [|a [|b [|c l]]]; try discriminate; destruct nt; inv_ok; one.
Qed.

Theorem sound_Compress rej inp cond axis k vi vc :
  conforms_opt vi inp -> conforms_opt vc cond ->
  sound (infer_Compress rej inp cond axis) (rt_Compress axis k vi vc).
Proof.
  intros Hx Hc tys outs Hi Hr. unfold infer_Compress in Hi. unfold rt_Compress in Hr.
  destruct rej; [discriminate|].
  destruct (negb (elem_eqb (fst vc) Bool_)); [discriminate|].
  assert (Huntyped : tys = [None] -> Forall2 conforms_opt outs tys).
  { intros ->. destruct axis as [a|]; [cbv zeta in Hr; match type of Hr with (if ?c then _ else _) = _ => destruct c end; [|discriminate]|];
      inv_ok; one. }
  destruct inp as [[e s|c]|]; [| |apply Huntyped; now inv_ok].
  2:{ destruct cond as [[ce cs|c']|]; [discriminate|discriminate|apply Huntyped; now inv_ok]. }
  destruct cond as [[ce cs|c]|]; [|discriminate|apply Huntyped; now inv_ok].
  clear Huntyped. simpl in Hx. destruct Hx as [He Hs]. destruct vi as [ev sv]. simpl in He, Hs, Hr. subst.
  destruct s as [[|d sh]|].
  - inv_ok. destruct axis; [match type of Hr with (if ?c then _ else _) = _ => destruct c end|]; inv_ok; one.
  - destruct (negb (elem_eqb ce Bool_)); [discriminate|].
    match type of Hi with (if ?c then _ else _) = _ => destruct c end; [discriminate|].
    pose proof (F2_length _ _ _ Hs) as Hlen.
    destruct axis as [a|].
    + rewrite Hlen in Hr.
      assert (HH := F2_set_nth _ _ (Z.to_nat (if (a <? 0)%Z then a + Z.of_nat (List.length (d :: sh)) else a)%Z) k Hs).
      destruct ((- Z.of_nat (List.length (d :: sh)) <=? a)%Z && (a <? Z.of_nat (List.length (d :: sh)))%Z);
        cbn [negb] in Hi; [|discriminate].
      inv Hi. inv Hr. constructor; [|constructor]. split; [reflexivity|]. exact HH.
    + inv_ok. one.
  - inv_ok. destruct axis; [match type of Hr with (if ?c then _ else _) = _ => destruct c end|]; inv_ok; one.
Qed.

(* ------------------------------------------------------------------- LinearRegressor: refuted, and what does hold *)

Lemma not_all2b vs ts : all2b vs ts = false -> ~ Forall2 conforms_opt vs ts.
Proof. intros H H'. apply all2b_spec in H'. congruence. Qed.

(* X : float32[3,4], targets = 2: reported float32[3,4], runtime (3,2) *)
Theorem LinearRegressor_refuted :
  exists x targets v tys outs, conforms_opt v x /\ infer_LinearRegressor x = Ok tys /\
    rt_LinearRegressor targets v = Some outs /\ ~ Forall2 conforms_opt outs tys /\
    x = Some (Tensor F32 (Some [DConst 3; DConst 4])) /\ targets = 2 /\
    tys = [Some (Tensor F32 (Some [DConst 3; DConst 4]))] /\ outs = [(F32, [3; 2])].
Proof.
  exists (Some (Tensor F32 (Some [DConst 3; DConst 4]))), 2, (F32, [3; 4]). do 2 eexists.
  split; [one|]. split; [reflexivity|]. split; [reflexivity|]. split; [apply not_all2b; reflexivity|]. repeat split.
Qed.

(* the number of features is not reported as a constant, or equals [targets] *)
Definition lr_features_ok (x : ity) (targets : N) : Prop :=
  match x with
  | Some (Tensor _ (Some [_; DConst c])) | Some (Tensor _ (Some [DConst c])) => c = targets
  | _ => True
  end.

Theorem sound_LinearRegressor_when x targets v :
  lr_features_ok x targets -> conforms_opt v x -> sound (infer_LinearRegressor x) (rt_LinearRegressor targets v).
Proof.
  intros Hok Hx tys outs Hi Hr. unfold infer_LinearRegressor in Hi. unfold rt_LinearRegressor in Hr.
  destruct (negb (numeric4 (fst v))); [discriminate|].
  destruct (negb (fully_typed [x])).
  - inv_ok. destruct (snd v) as [|a [|b [|c l]]]; inv_ok; one.
  - destruct x as [[e [sim|]|c]|]; try discriminate. destruct v as [ev sv]. simpl in Hx. destruct Hx as [He Hs].
    simpl in He, Hs, Hr.
    destruct sim as [|a [|b [|c l]]]; inv_ok; try discriminate; simpl in Hok.
    + destruct a; subst; one.
    + destruct a, b; subst; one.
Qed.

(* ------------------------------------------------------------------------- Normalizer: refuted, and what does hold *)

(* X : float64[3,4]: reported float64[3,4], runtime float32 (3,4) *)
Theorem Normalizer_refuted :
  exists x norm v tys outs, conforms_opt v x /\ infer_Normalizer x norm = Ok tys /\
    rt_Normalizer v = Some outs /\ ~ Forall2 conforms_opt outs tys /\
    x = Some (Tensor F64 (Some [DConst 3; DConst 4])) /\
    tys = [Some (Tensor F64 (Some [DConst 3; DConst 4]))] /\ outs = [(F32, [3; 4])].
Proof.
  exists (Some (Tensor F64 (Some [DConst 3; DConst 4]))), "L2"%string, (F64, [3; 4]). do 2 eexists.
  split; [one|]. split; [reflexivity|]. split; [reflexivity|]. split; [apply not_all2b; reflexivity|]. repeat split.
Qed.

Definition norm_input_ok (x : ity) : Prop := match x with Some (Tensor e _) => e = F32 | _ => True end.

Theorem sound_Normalizer_when x norm v :
  norm_input_ok x -> conforms_opt v x -> sound (infer_Normalizer x norm) (rt_Normalizer v).
Proof.
  intros Hok Hx tys outs Hi Hr. unfold infer_Normalizer in Hi. unfold rt_Normalizer in Hr.
  destruct (negb (norm_known norm)); [discriminate|]. inv_ok.
  destruct (negb (numeric4 (fst v))); [discriminate|].
  destruct x as [[e s|c]|]; simpl in Hx.
  - destruct Hx as [He Hs]. simpl in Hok. subst e.
    destruct (snd v) as [|a [|b [|c l]]] eqn:Hv; inv_ok; constructor; try constructor; simpl; rewrite ?Hv in *; auto.
  - tauto.
  - destruct (snd v) as [|a [|b [|c l]]]; inv_ok; one.
Qed.

(* ---------------------------------------------------------------- TreeEnsembleClassifier: refuted, what does hold *)

(* four votes (class_ids) over two class labels, X : float32[?,3]: reported scores float32[?,4], runtime (5,2) *)
Theorem TreeEnsembleClassifier_refuted :
  exists x ids li ls v tys outs, conforms_opt v x /\ infer_TreeEnsembleClassifier x ids li ls = Ok tys /\
    rt_TreeEnsembleClassifier li ls v = Some outs /\ ~ Forall2 conforms_opt outs tys /\
    ids = Some 4 /\ li = Some 2 /\ ls = None /\
    tys = [Some (Tensor I64 (Some [DUnk])); Some (Tensor F32 (Some [DUnk; DConst 4]))] /\ outs = [(I64, [5]); (F32, [5; 2])].
Proof.
  exists (Some (Tensor F32 (Some [DUnk; DConst 3]))), (Some 4), (Some 2), None, (F32, [5; 3]). do 2 eexists.
  split; [one|]. split; [reflexivity|]. split; [reflexivity|]. split; [apply not_all2b; reflexivity|]. repeat split.
Qed.

(* class_ids absent, or as many votes as class labels *)
Definition tec_ids_ok (ids li ls : option N) : Prop :=
  match ids with None => True | Some c => Some c = match ls with Some e => Some e | None => li end end.

Theorem sound_TreeEnsembleClassifier_when x ids li ls v :
  tec_ids_ok ids li ls -> conforms_opt v x ->
  sound (infer_TreeEnsembleClassifier x ids li ls) (rt_TreeEnsembleClassifier li ls v).
Proof.
  intros Hok Hx tys outs Hi Hr. unfold infer_TreeEnsembleClassifier in Hi. unfold rt_TreeEnsembleClassifier in Hr.
  destruct v as [e s]. simpl in Hr. destruct (negb (numeric4 e)); [discriminate|].
  assert (Hd : forall n, ls = Some n \/ (ls = None /\ li = Some n) -> dim_ok n (odim ids)).
  { intros n Hn. unfold tec_ids_ok in Hok. destruct ids as [c|]; simpl; [|exact I].
    destruct Hn as [-> | [-> ->]]; congruence. }
  destruct (fully_typed [x]).
  - destruct x as [[ex [[|a [|b [|c l]]]|]|c]|]; destruct ls as [nls|]; try destruct li as [nli|]; try discriminate; inv_ok;
      simpl in Hx; destruct Hx as [He Hs]; simpl in Hs; inv_ok; one.
  - destruct s as [|a [|b [|c l]]]; try discriminate; destruct ls as [nls|]; try destruct li as [nli|]; try discriminate; inv_ok; one.
Qed.

(* ---------------------------------------------------------------------------------------------------- Loop *)

Definition elem_agrees (v : val) (t : ity) : Prop :=
  match t with None => True | Some (Tensor e _) => fst v = e | Some (NonTensor _) => False end.
(* ONNX's own Loop inference accepted the node; scope of the theorem: tensor-typed carried values — the initial value
   and the body result are tensors of the same element type *)
Definition same_elem (ti tr : ity) : Prop :=
  match ti, tr with Some (Tensor e _), Some (Tensor e' _) => e = e' | _, _ => False end.

(* hypotheses about the runtime of the body (index = iteration number) *)
Definition body_typing_sound (body : nat -> list val -> list val) (tin tres : list ity) : Prop :=
  forall i vs, Forall2 conforms_opt vs tin -> Forall2 conforms_opt (body i vs) tres.
Definition body_statically_typed (body : nat -> list val -> list val) (tin tres : list ity) : Prop :=
  forall i vs, Forall2 elem_agrees vs tin -> Forall2 elem_agrees (body i vs) tres.

Definition sound_claim_Loop (carried : list ity -> list ity -> list ity) : Prop :=
  forall body tin tres,
    body_typing_sound body tin tres -> body_statically_typed body tin tres -> Forall2 same_elem tin tres ->
    forall v0, Forall2 conforms_opt v0 tin ->
    forall k, Forall2 conforms_opt (loop_run body k v0) (carried tin tres).

(* body = concat(a, a): (e, [n]) |-> (e, [2n]) *)
Definition body_double (_ : nat) (vs : list val) : list val := map (fun v => (fst v, map (N.mul 2) (snd v))) vs.
(* body = transpose(concat(a, a, axis=0)): (e, [p; q]) |-> (e, [q; 2p]) *)
Definition body_concat_transpose (_ : nat) (vs : list val) : list val :=
  map (fun v => (fst v, match snd v with [p; q] => [q; 2 * p] | s => s end)) vs.

Definition loop_counterexample (carried : list ity -> list ity -> list ity) body tin tres v0 (k : nat) : Prop :=
  body_typing_sound body tin tres /\ body_statically_typed body tin tres /\ Forall2 same_elem tin tres /\
  Forall2 conforms_opt v0 tin /\ ~ Forall2 conforms_opt (loop_run body k v0) (carried tin tres).

Lemma body_double_hyps :
  let tin := [Some (Tensor F32 (Some [DConst 2]))] in let tres := [Some (Tensor F32 (Some [DConst 4]))] in
  body_typing_sound body_double tin tres /\ body_statically_typed body_double tin tres /\ Forall2 same_elem tin tres.
Proof.
  intros tin tres. split; [|split].
  - intros i vs Hv. unfold tin in Hv. inversion Hv as [|v t vs' ts' Hvt Hrest]; subst. inversion Hrest; subst.
    destruct v as [e s]. simpl in Hvt. destruct Hvt as [He Hs]. inversion Hs as [|n d l l' Hn Hl]; subst. inversion Hl; subst.
    simpl in *. subst. one.
  - intros i vs Hv. unfold tin in Hv. inversion Hv as [|v t vs' ts' Hvt Hrest]; subst. inversion Hrest; subst.
    simpl in *. one.
  - one.
Qed.

(* carried float32[2], body concat(a, a): reported float32[4]; runtime (2,) after 0 trips, (8,) after 2 trips *)
Theorem Loop_orig_refuted :
  exists body tin tres v0,
    loop_counterexample loop_carried_orig body tin tres v0 0 /\ loop_counterexample loop_carried_orig body tin tres v0 2 /\
    tin = [Some (Tensor F32 (Some [DConst 2]))] /\ loop_carried_orig tin tres = [Some (Tensor F32 (Some [DConst 4]))] /\
    map (fun k => loop_run body k v0) [0; 1; 2]%nat = [[(F32, [2])]; [(F32, [4])]; [(F32, [8])]].
Proof.
  exists body_double, [Some (Tensor F32 (Some [DConst 2]))], [Some (Tensor F32 (Some [DConst 4]))], [(F32, [2])].
  destruct body_double_hyps as [Hb [Hst Hse]].
  assert (Hc : Forall2 conforms_opt [(F32, [2])] [Some (Tensor F32 (Some [DConst 2]))]) by one.
  split; [|split]; [| |repeat split]; (split; [exact Hb|]; split; [exact Hst|]; split; [exact Hse|]; split; [exact Hc|]);
    apply not_all2b; reflexivity.
Qed.

(* the trial repair of DESIGN.md Appendix D (keep the dims on which the initial and the body result type agree) is
   unsound as well: carried float32[2,2], body transpose(concat(a,a)): reported float32[2,?], runtime (4,4) after 2 trips *)
Theorem Loop_appendixD_refuted :
  exists body tin tres v0,
    loop_counterexample loop_carried_appendixD body tin tres v0 2 /\
    tin = [Some (Tensor F32 (Some [DConst 2; DConst 2]))] /\
    loop_carried_appendixD tin tres = [Some (Tensor F32 (Some [DConst 2; DUnk]))] /\
    loop_run body 2 v0 = [(F32, [4; 4])].
Proof.
  exists body_concat_transpose, [Some (Tensor F32 (Some [DConst 2; DConst 2]))], [Some (Tensor F32 (Some [DConst 2; DConst 4]))],
    [(F32, [2; 2])].
  split; [|repeat split].
  split; [|split; [|split; [one|split; [one|apply not_all2b; reflexivity]]]].
  - intros i vs Hv. inversion Hv as [|v t vs' ts' Hvt Hrest]; subst. inversion Hrest; subst.
    destruct v as [e s]. simpl in Hvt. destruct Hvt as [He Hs]. inversion Hs as [|n d l l' Hn Hl]; subst.
    inversion Hl as [|n2 d2 l2 l2' Hn2 Hl2]; subst. inversion Hl2; subst. simpl in *. subst. one.
  - intros i vs Hv. inversion Hv as [|v t vs' ts' Hvt Hrest]; subst. inversion Hrest; subst. simpl in *. one.
Qed.

(* -- the repaired routine -- *)

Lemma keeps_sound l : forall dr di,
  List.length dr = List.length di ->
  forallb (fun p => dim_keeps (fst p) (snd p)) (combine dr di) = true ->
  Forall2 dim_ok l dr -> Forall2 dim_ok l di.
Proof.
  induction l as [|n l IH]; intros dr di Hl Hk H; inv_ok.
  - destruct di; [constructor | discriminate].
  - destruct di as [|i di]; [discriminate|]. simpl in Hk, Hl. apply andb_prop in Hk. destruct Hk as [Hk1 Hk2].
    constructor; [|apply (IH l'); auto].
    destruct i; simpl; auto. simpl in Hk1. destruct y; simpl in *; try discriminate. apply N.eqb_eq in Hk1. congruence.
Qed.

Lemma preserved_sound v r i : preserved r i = true -> conforms_opt v r -> conforms_opt v i.
Proof.
  intros Hp Hc. destruct r as [[er sr|cr]|]; destruct i as [[ei si|ci]|]; simpl in *; try discriminate; try tauto.
  apply andb_prop in Hp. destruct Hp as [He Hs]. apply elem_eqb_eq in He. subst. destruct Hc as [He Hc].
  split; [assumption|]. destruct si as [di|]; [|exact I]. destruct sr as [dr|]; [|discriminate].
  apply andb_prop in Hs. destruct Hs as [Hl Hk]. apply Nat.eqb_eq in Hl. eapply keeps_sound; eauto.
Qed.

Lemma dim_eqb_eq a b : dim_eqb a b = true -> a = b.
Proof.
  destruct a, b; simpl; intro H; try discriminate; try reflexivity.
  - apply N.eqb_eq in H. congruence.
  - apply String.eqb_eq in H. congruence.
Qed.

Lemma merge_weaker_l l : forall dr di, List.length dr = List.length di ->
  Forall2 dim_ok l dr -> Forall2 dim_ok l (map (fun p => merge_dim (fst p) (snd p)) (combine dr di)).
Proof.
  induction l as [|n l IH]; intros dr di Hl H; inv_ok.
  - destruct di; constructor.
  - destruct di as [|i di]; [discriminate|]. simpl. constructor; [|apply IH; auto].
    unfold merge_dim. simpl. destruct (dim_eqb y i); simpl; auto.
Qed.
Lemma merge_weaker_r l : forall dr di, List.length dr = List.length di ->
  Forall2 dim_ok l di -> Forall2 dim_ok l (map (fun p => merge_dim (fst p) (snd p)) (combine dr di)).
Proof.
  induction l as [|n l IH]; intros dr di Hl H; inv_ok.
  - destruct dr; constructor.
  - destruct dr as [|r dr]; [discriminate|]. simpl. constructor; [|apply IH; auto].
    unfold merge_dim. simpl. destruct (dim_eqb r y) eqn:E; simpl; auto. apply dim_eqb_eq in E. subst. assumption.
Qed.

Lemma preserved_lengths er sr ei dr di :
  preserved (Some (Tensor er sr)) (Some (Tensor ei (Some di))) = true -> sr = Some dr -> List.length dr = List.length di.
Proof.
  simpl. intros H ->. apply andb_prop in H. destruct H as [_ H]. apply andb_prop in H. destruct H as [H _].
  apply Nat.eqb_eq. assumption.
Qed.

Lemma merged_sound_res v r i : preserved r i = true -> conforms_opt v r -> conforms_opt v (merged r i).
Proof.
  intros Hp Hc. destruct r as [[er sr|cr]|]; destruct i as [[ei si|ci]|]; simpl in *; try tauto.
  destruct Hc as [He Hc]. split; [assumption|].
  destruct sr as [dr|]; [|exact I]. destruct si as [di|]; [|exact I].
  apply merge_weaker_l; [|assumption].
  apply andb_prop in Hp. destruct Hp as [_ Hp]. apply andb_prop in Hp. destruct Hp as [Hl _]. apply Nat.eqb_eq in Hl. exact Hl.
Qed.

Lemma merged_sound_init v r i : preserved r i = true -> conforms_opt v i -> conforms_opt v (merged r i).
Proof.
  intros Hp Hc. destruct r as [[er sr|cr]|]; destruct i as [[ei si|ci]|]; simpl in *; try discriminate; try tauto.
  destruct Hc as [He Hc]. pose proof Hp as Hp'. apply andb_prop in Hp'. destruct Hp' as [Hee _]. apply elem_eqb_eq in Hee.
    split; [congruence|].
    destruct sr as [dr|]; [|exact I]. destruct si as [di|]; [|exact I].
    apply merge_weaker_r; [|assumption].
    apply andb_prop in Hp. destruct Hp as [_ Hp]. apply andb_prop in Hp. destruct Hp as [Hl _]. apply Nat.eqb_eq in Hl. exact Hl.
Qed.

Lemma weakened_sound v r : elem_agrees v r -> conforms_opt v (weakened r).
Proof. destruct r as [[e s|c]|]; simpl; tauto. Qed.

Lemma conforms_elem_agrees v t : conforms_opt v t -> elem_agrees v t.
Proof. destruct t as [[e s|c]|]; simpl; tauto. Qed.

Lemma F2_combine_map {A B C} (P : A -> C -> Prop) (f : B * B -> C) (Q : A -> B -> Prop) :
  forall (vs : list A) (xs ys : list B),
  (forall v x y, In (x, y) (combine xs ys) -> Q v x -> P v (f (x, y))) ->
  List.length xs = List.length ys ->
  Forall2 Q vs xs -> Forall2 P vs (map f (combine xs ys)).
Proof.
  induction vs as [|v vs IH]; intros xs ys Hf Hl H; inv_ok.
  - destruct ys; constructor.
  - destruct ys as [|y0 ys]; [discriminate|]. simpl. constructor.
    + apply Hf; [left; reflexivity | assumption].
    + apply IH; auto. intros. apply Hf; [right|]; assumption.
Qed.

Lemma F2_combine_map_r {A B C} (P : A -> C -> Prop) (f : B * B -> C) (Q : A -> B -> Prop) :
  forall (vs : list A) (xs ys : list B),
  (forall v x y, In (x, y) (combine xs ys) -> Q v y -> P v (f (x, y))) ->
  List.length xs = List.length ys ->
  Forall2 Q vs ys -> Forall2 P vs (map f (combine xs ys)).
Proof.
  induction vs as [|v vs IH]; intros xs ys Hf Hl H; inv_ok.
  - destruct xs; constructor.
  - destruct xs as [|x0 xs]; [discriminate|]. simpl. constructor.
    + apply Hf; [left; reflexivity | assumption].
    + apply IH; auto. intros. apply Hf; [right|]; assumption.
Qed.

Lemma F2_impl_combine {A B} (P Q : A -> B -> Prop) :
  forall (vs : list A) (xs ys : list B),
  (forall v x y, In (x, y) (combine xs ys) -> P v x -> Q v y) ->
  List.length xs = List.length ys -> Forall2 P vs xs -> Forall2 Q vs ys.
Proof.
  induction vs as [|v vs IH]; intros xs ys Hf Hl H; inv_ok.
  - destruct ys; [constructor | discriminate].
  - destruct ys as [|y0 ys]; [discriminate|]. constructor.
    + apply (Hf v y y0); [left; reflexivity | assumption].
    + apply (IH l'); auto. intros. apply (Hf v0 x y1); [right|]; assumption.
Qed.

Lemma same_elem_in tin : forall tres x y, Forall2 same_elem tin tres -> In (x, y) (combine tres tin) -> same_elem y x.
Proof.
  induction tin as [|t tin IHt]; intros tres x y Hse Hin; inversion Hse; subst; simpl in Hin; [tauto|].
  destruct Hin as [Hin|Hin]; [inversion Hin; subst; assumption | eapply IHt; eauto].
Qed.

Theorem Loop_fixed_sound : sound_claim_Loop loop_carried_fixed.
Proof.
  intros body tin tres Hb Hst Hse v0 Hv0 k.
  pose proof (F2_length _ _ _ Hse) as Hlen. symmetry in Hlen.
  unfold loop_carried_fixed.
  destruct (forallb (fun p => preserved (fst p) (snd p)) (combine tres tin)) eqn:Hall.
  - (* the body keeps the declared carried types: they are a loop invariant *)
    rewrite forallb_forall in Hall.
    assert (Hinv : forall j, Forall2 conforms_opt (loop_run body j v0) tin).
    { induction j as [|j IH]; simpl; [assumption|].
      apply (F2_impl_combine conforms_opt conforms_opt _ tres tin); [ | exact Hlen | apply Hb; exact IH].
      intros v x y Hin Hc. apply (preserved_sound v x y); [apply (Hall (x, y)); assumption | assumption]. }
    destruct k as [|k]; simpl.
    + apply (F2_combine_map_r conforms_opt _ conforms_opt); [ | exact Hlen | exact Hv0].
      intros v x y Hin Hc. simpl. apply merged_sound_init; [apply (Hall (x, y)); assumption | assumption].
    + apply (F2_combine_map conforms_opt _ conforms_opt); [ | exact Hlen | apply Hb; apply Hinv].
      intros v x y Hin Hc. simpl. apply merged_sound_res; [apply (Hall (x, y)); assumption | assumption].
  - (* otherwise only the (static) element types are claimed *)
    assert (Hinv : forall j, Forall2 elem_agrees (loop_run body j v0) tin).
    { induction j as [|j IH]; simpl.
      - clear - Hv0. induction Hv0; constructor; [apply conforms_elem_agrees; assumption | assumption].
      - apply (F2_impl_combine elem_agrees elem_agrees _ tres tin); [ | exact Hlen | apply Hst; exact IH].
        intros v x y Hin Hc. pose proof (same_elem_in _ _ _ _ Hse Hin) as Hs.
        unfold same_elem, elem_agrees in *. destruct x as [[e' s'|c']|]; destruct y as [[e s|c]|]; try tauto; congruence. }
    destruct k as [|k]; simpl.
    + apply (F2_combine_map_r conforms_opt _ conforms_opt); [ | exact Hlen | exact Hv0].
      intros v x y Hin Hc. apply weakened_sound. pose proof (same_elem_in _ _ _ _ Hse Hin) as Hs.
      unfold same_elem, elem_agrees in *. destruct x as [[e' s'|c']|]; destruct y as [[e s|c]|]; simpl in Hc; try tauto.
      destruct Hc. congruence.
    + apply (F2_combine_map conforms_opt _ elem_agrees); [ | exact Hlen | apply Hst; apply Hinv].
      intros v x y Hin Hc. apply weakened_sound. assumption.
Qed.

(* non-vacuity: on the two witnesses the repaired routine reports exactly what all trips have in common *)
Example Loop_fixed_examples :
  loop_carried_fixed [Some (Tensor F32 (Some [DConst 2]))] [Some (Tensor F32 (Some [DConst 4]))] = [Some (Tensor F32 None)] /\
  loop_carried_fixed [Some (Tensor F32 (Some [DConst 2; DConst 2]))] [Some (Tensor F32 (Some [DConst 2; DConst 4]))]
    = [Some (Tensor F32 None)] /\
  (* test_loop_inference: float[?] carried through unchanged, int64[N,2] updated by add(i, b) *)
  loop_carried_fixed [Some (Tensor F64 (Some [DUnk])); Some (Tensor I64 (Some [DNamed "N"; DConst 2]))]
                     [Some (Tensor F64 (Some [DUnk])); Some (Tensor I64 (Some [DNamed "N"; DConst 2]))]
    = [Some (Tensor F64 (Some [DUnk])); Some (Tensor I64 (Some [DNamed "N"; DConst 2]))] /\
  (* an accumulator of unknown length whose body result happens to be more specific *)
  loop_carried_fixed [Some (Tensor F32 (Some [DUnk; DConst 3]))] [Some (Tensor F32 (Some [DConst 5; DConst 3]))]
    = [Some (Tensor F32 (Some [DUnk; DConst 3]))].
Proof. repeat split; reflexivity. Qed.

(* ------------------------------------------------------------------------------------------------- inline *)

Lemma strip_dims_weaker l : forall ds, Forall2 dim_ok l ds -> Forall2 dim_ok l (map strip_dim ds).
Proof. induction 1 as [|n d l ds H _ IH]; simpl; constructor; auto. destruct d; simpl; auto. Qed.

Theorem strip_dims_sound v t : conforms v t -> conforms v (strip_dims t).
Proof.
  destruct t as [e [ds|]|c]; simpl; auto. intros [He Hs]. split; [assumption|]. apply strip_dims_weaker. assumption.
Qed.

(* stripping loses nothing that conformance looks at *)
Theorem strip_dims_exact v t : conforms v (strip_dims t) -> conforms v t.
Proof.
  destruct t as [e [ds|]|c]; simpl; auto. intros [He Hs]. split; [assumption|].
  revert Hs. generalize (snd v). induction ds as [|d ds IH]; intros l H; simpl in H; inv_ok; constructor; auto.
  destruct d; simpl in *; auto.
Qed.

Theorem inline_types_sound decl_in decl_out args tys outs :
  infer_Inline decl_in decl_out args = Ok tys ->
  Forall2 conforms outs decl_out ->            (* the inlined model keeps its own declared output types *)
  Forall2 conforms_opt outs tys.
Proof.
  unfold infer_Inline. destruct (forallb _ _); [|discriminate]. intros H Hc. inv_ok.
  induction Hc; simpl; constructor; auto. simpl. apply strip_dims_sound. assumption.
Qed.

(* the argument check never rejects an argument whose values all satisfy the declared input type's constants *)
Example inline_example :
  infer_Inline [Tensor F32 (Some [DNamed "N"; DConst 3])] [Tensor F32 (Some [DNamed "N"; DConst 1]); Tensor I64 None]
               [Some (Tensor F32 (Some [DConst 5; DConst 3]))]
  = Ok [Some (Tensor F32 (Some [DUnk; DConst 1])); Some (Tensor I64 None)] /\
  infer_Inline [Tensor F32 (Some [DNamed "N"; DConst 3])] [Tensor F32 None] [Some (Tensor F32 (Some [DConst 5; DConst 4]))] = Err EType.
Proof. split; reflexivity. Qed.

(* ------------------------------------------------------------------------------------------------ examples *)

Example sound_examples :
  infer_ArrayFeatureExtractor (Some (Tensor F64 (Some [DNamed "N"; DConst 5]))) (Some (Tensor I64 (Some [DConst 2])))
    = Ok [Some (Tensor F64 (Some [DNamed "N"; DConst 2]))] /\
  rt_ArrayFeatureExtractor (F64, [7; 5]) (I64, [2]) = Some [(F64, [7; 2])] /\
  infer_ArrayFeatureExtractor (Some (Tensor F32 (Some [DConst 5]))) (Some (Tensor I64 (Some [DUnk])))
    = Ok [Some (Tensor F32 (Some [DConst 1; DUnk]))] /\
  rt_ArrayFeatureExtractor (F32, [5]) (I64, [3]) = Some [(F32, [1; 3])] /\
  infer_OneHotEncoder (Some (Tensor I64 (Some [DUnk; DConst 2]))) (Some 3) None = Ok [Some (Tensor F32 (Some [DUnk; DConst 2; DConst 3]))] /\
  rt_OneHotEncoder (Some 3) None (I64, [4; 2]) = Some [(F32, [4; 2; 3])] /\
  infer_Compress false (Some (Tensor F32 (Some [DConst 2; DConst 3]))) (Some (Tensor Bool_ (Some [DUnk]))) (Some (-1)%Z)
    = Ok [Some (Tensor F32 (Some [DConst 2; DUnk]))] /\
  rt_Compress (Some (-1)%Z) 1 (F32, [2; 3]) (Bool_, [2]) = Some [(F32, [2; 1])] /\
  infer_Scaler (Some (Tensor I64 (Some [DUnk; DConst 3]))) (Some 3) (Some 1) = Ok [Some (Tensor F32 (Some [DUnk; DConst 3]))] /\
  infer_Scaler (Some (Tensor I64 (Some [DUnk; DConst 3]))) (Some 2) (Some 1) = Err EInference /\
  infer_TreeEnsembleClassifier (Some (Tensor F32 (Some [DNamed "N"; DConst 5]))) (Some 3) None (Some 2)
    = Ok [Some (Tensor Str (Some [DNamed "N"])); Some (Tensor F32 (Some [DNamed "N"; DConst 3]))] /\
  infer_LinearRegressor (Some (Tensor F64 (Some [DNamed "N"; DConst 5]))) = Ok [Some (Tensor F32 (Some [DNamed "N"; DConst 5]))] /\
  rt_LinearRegressor 1 (F64, [2; 5]) = Some [(F32, [2; 1])].
Proof. repeat split; reflexivity. Qed.
