(* DfsFacts.v — the DFS postorder lemma (generic), and its instance for the traversal of the builder model. *)
From Coq Require Import List Arith Bool Lia.
Import ListNotations.
Section DFS.
Variable A : Type.
Variable eqb : A -> A -> bool.
Hypothesis eqb_spec : forall a b, reflect (a = b) (eqb a b).
Variable adj : A -> list A.
Variable rank : A -> nat.
Hypothesis acyclic : forall u v, In v (adj u) -> rank v < rank u.

Definition mem x l := existsb (eqb x) l.
Lemma mem_In x l : mem x l = true <-> In x l.
Proof. unfold mem. rewrite existsb_exists. split.
  - intros [y [Hy E]]. destruct (eqb_spec x y); [subst; auto|discriminate].
  - intros H. exists x. split; auto. destruct (eqb_spec x x); congruence. Qed.

Fixpoint gdfs (fuel : nat) (st : list A * list A) (u : A) : list A * list A :=
  match fuel with O => st | S f =>
    if mem u (fst st) then st else
    let st1 := fold_left (gdfs f) (adj u) (u :: fst st, snd st) in
    (fst st1, snd st1 ++ [u])
  end.

(* before x y l : x occurs in l at a position before y's suffix, i.e. l = l1 ++ y :: l2 -> In x l1 *)
Definition closed (post : list A) := forall l1 x l2, post = l1 ++ x :: l2 -> forall y, In y (adj x) -> In y l1.
Record Inv (vis post : list A) : Prop := {
  inv_sub : forall x, In x post -> In x vis;
  inv_nodup : NoDup post;
  inv_closed : closed post }.
Definition gray (vis post : list A) x := In x vis /\ ~ In x post.

Lemma NoDup_snoc (l : list A) u : NoDup l -> ~ In u l -> NoDup (l ++ [u]).
Proof. induction l as [|x l IHl]; simpl; intros Hn Hu. { repeat constructor; auto. }
  inversion Hn; subst. constructor.
  - intros Hc; apply in_app_or in Hc; destruct Hc as [Hc|[Hc|[]]]; [auto|subst; apply Hu; now left].
  - apply IHl; auto. Qed.
Lemma closed_app post u : closed post -> (forall y, In y (adj u) -> In y post) -> ~ In u post -> closed (post ++ [u]).
Proof.
  intros Hc Hu Hn l1 x l2 E y Hy.
  destruct l2 as [|z l2'] using rev_ind.
  - apply app_inj_tail in E. destruct E as [-> ->]. auto.
  - clear IHl2'. rewrite app_comm_cons, app_assoc in E. apply app_inj_tail in E. destruct E as [E ->].
    eapply Hc; eauto.
Qed.

Lemma dfs_spec : forall fuel vis post u,
  Inv vis post -> rank u < fuel -> (forall x, gray vis post x -> rank u < rank x) ->
  let '(vis', post') := gdfs fuel (vis, post) u in
  Inv vis' post' /\ (exists new, post' = post ++ new) /\ (forall x, In x vis -> In x vis') /\
  (forall x, gray vis' post' x <-> gray vis post x) /\ In u post'.
Proof.
  induction fuel as [|f IH]; intros vis post u HI Hf Hg; [lia|].
  cbn [gdfs fst snd]. destruct (mem u vis) eqn:Hm.
  - (* already visited: must be black *)
    apply mem_In in Hm. split; [exact HI|]. split; [exists []; now rewrite app_nil_r|]. split; [auto|]. split; [tauto|].
    + destruct (in_dec (fun a b => match eqb_spec a b with ReflectT _ e => left e | ReflectF _ n => right n end) u post) as [|Hn]; auto.
      exfalso. specialize (Hg u (conj Hm Hn)). lia.
  - assert (Hnv : ~ In u vis) by (rewrite <- mem_In; congruence).
    (* process children *)
    assert (Hfold : forall l vis0 post0,
        (forall v, In v l -> In v (adj u)) ->
        Inv vis0 post0 -> In u vis0 -> ~ In u post0 ->
        (forall x, gray vis0 post0 x <-> (x = u \/ gray vis post x)) ->
        let '(vis', post') := fold_left (gdfs f) l (vis0, post0) in
        Inv vis' post' /\ (exists new, post' = post0 ++ new) /\ (forall x, In x vis0 -> In x vis') /\
        (forall x, gray vis' post' x <-> (x = u \/ gray vis post x)) /\ (forall v, In v l -> In v post')).
    { induction l as [|v l IHl]; intros vis0 post0 Hl HI0 Hu0 Hnu0 Hg0; cbn [fold_left].
      - split; [exact HI0|]. split; [exists []; now rewrite app_nil_r|]. split; [auto|]. split; [exact Hg0|]. intros v [].
      - assert (Hv : In v (adj u)) by (apply Hl; now left).
        pose proof (acyclic _ _ Hv) as Hr.
        specialize (IH vis0 post0 v HI0 ltac:(lia)).
        assert (Hgv : forall x, gray vis0 post0 x -> rank v < rank x).
        { intros x Hx. apply Hg0 in Hx. destruct Hx as [->|Hx]; [lia|]. specialize (Hg x Hx). lia. }
        specialize (IH Hgv). destruct (gdfs f (vis0, post0) v) as [vis1 post1] eqn:E.
        destruct IH as (HI1 & [new1 Hn1] & Hs1 & Hg1 & Hv1).
        assert (Hnu1 : ~ In u post1).
        { intros Hc. assert (gray vis1 post1 u) as G by (apply Hg1; split; auto). destruct G; contradiction. }
        specialize (IHl vis1 post1 (fun w Hw => Hl w (or_intror Hw)) HI1 (Hs1 _ Hu0) Hnu1).
        assert (Hg1' : forall x, gray vis1 post1 x <-> x = u \/ gray vis post x) by (intros x; rewrite Hg1; apply Hg0).
        specialize (IHl Hg1'). destruct (fold_left (gdfs f) l (vis1, post1)) as [vis2 post2].
        destruct IHl as (HI2 & [new2 Hn2] & Hs2 & Hg2 & Hv2).
        split; [exact HI2|]. split; [exists (new1 ++ new2); now rewrite Hn2, Hn1, app_assoc|]. split; [auto|]. split; [exact Hg2|].
        + intros w [<-|Hw]; auto. rewrite Hn2. apply in_or_app; now left. }
    assert (HI0 : Inv (u :: vis) post).
    { constructor; try apply HI. intros x Hx. right. now apply HI. }
    assert (Hnp : ~ In u post) by (intros Hc; apply Hnv; now apply HI).
    specialize (Hfold (adj u) (u :: vis) post (fun v H => H) HI0 (or_introl eq_refl) Hnp).
    assert (Hg0 : forall x, gray (u :: vis) post x <-> x = u \/ gray vis post x).
    { intros x. unfold gray. simpl. split.
      - intros [[<-|Hx] Hn]; auto.
      - intros [->|[Hx Hn]]; auto. }
    specialize (Hfold Hg0). destruct (fold_left (gdfs f) (adj u) (u :: vis, post)) as [vis' post'].
    destruct Hfold as (HI' & [new Hn] & Hs & Hg' & Hch). cbn [fst snd].
    assert (Hnu' : ~ In u post').
    { intros Hc. assert (gray vis' post' u) as G by (apply Hg'; now left). destruct G; contradiction. }
    split; [constructor|]; [| | | split; [|split; [|split; [intros x; split|]]]].
    + intros x Hx. apply in_app_or in Hx. destruct Hx as [Hx|[<-|[]]]; [now apply HI'|]. apply Hs; now left.
    + apply NoDup_snoc; auto. apply HI'.
    + apply closed_app; auto. apply HI'.
    + exists (new ++ [u]). now rewrite Hn, app_assoc.
    + intros x Hx. apply Hs. now right.
    + intros [Hx Hn']. assert (gray vis' post' x) as G. { split; auto. intros Hc; apply Hn'; apply in_or_app; now left. }
      apply Hg' in G. destruct G as [->|G]; auto. exfalso; apply Hn'; apply in_or_app; right; now left.
    + intros G. assert (gray vis' post' x) as [G1 G2] by (apply Hg'; now right). split; auto.
      intros Hc. apply in_app_or in Hc. destruct Hc as [Hc|[<-|[]]]; auto. destruct G; contradiction.
    + apply in_or_app; right; now left.
Qed.
End DFS.


(* ---------- the traversal used by the builder model ---------- *)
From Spox Require Import Base IR Build.

Lemma build_dfs_is_dfs adj : forall fuel st u, Build.dfs fuel adj st u = gdfs nref nref_eqb adj fuel st u.
Proof. induction fuel as [|f IH]; intros st u; cbn [Build.dfs gdfs]; [reflexivity|].
  change (DfsFacts.mem nref nref_eqb u (fst st)) with (Base.mem nref_eqb u (fst st)).
  destruct (Base.mem nref_eqb u (fst st)); [reflexivity|].
  assert (E : forall l s, fold_left (Build.dfs f adj) l s = fold_left (gdfs nref nref_eqb adj f) l s).
  { induction l as [|x l IHl]; intros s; simpl; [reflexivity|]. rewrite IH. apply IHl. }
  rewrite E. reflexivity. Qed.

Lemma nref_eqb_reflect a b : reflect (a = b) (nref_eqb a b).
Proof. destruct a as [x|x], b as [y|y]; simpl; try (constructor; congruence);
  destruct (Nat.eqb_spec x y); constructor; congruence. Qed.

(* On an acyclic dependency relation (witnessed by any rank function) the builder's postorder from a source, with enough fuel,
   lists every node once, lists every dependency of a node BEFORE the node, and contains the source. *)
Theorem postorder_spec adj (rank : nref -> nat) :
  (forall u v, In v (adj u) -> rank v < rank u) ->
  forall fuel src, rank src < fuel ->
  let post := postorder fuel adj src in
  NoDup post /\ closed nref adj post /\ In src post.
Proof.
  intros Hacyc fuel src Hf. unfold postorder. rewrite build_dfs_is_dfs.
  pose proof (dfs_spec nref nref_eqb nref_eqb_reflect adj rank Hacyc fuel [] [] src) as H.
  assert (HI : Inv nref adj [] []).
  { constructor; [intros x []|constructor|]. intros l1 x l2 E. destruct l1; discriminate. }
  specialize (H HI Hf). assert (Hg : forall x, gray nref [] [] x -> rank src < rank x) by (intros x [[] _]).
  specialize (H Hg). destruct (gdfs nref nref_eqb adj fuel ([], []) src) as [vis post]. cbn [snd].
  destruct H as (HI' & _ & _ & _ & Hin). split; [apply HI'|]. split; [apply HI'|exact Hin].
Qed.
