(* PolicyFacts.v — the opset import policy is a function of the SET of requirements (C09, C12): the order in which requirements are
   collected (traversal order, set iteration, history of the process) and repeated requirements do not matter; the alias "ai.onnx" of
   the default domain never gets an import of its own; a domain is imported only if something requires it. *)
From Coq Require Import List String Bool Arith Lia Permutation.
From Spox Require Import Base IR Build AdaptFacts.
Import ListNotations.

Lemma policy_key_required r d v : lookup String.eqb d (max_opset_policy r) = Some v -> exists dv, In dv r /\ fold_domain (fst dv) = d.
Proof. intros H. destruct (policy_is_max r d v H) as [_ (dv & Hin & Hd & _)]. eauto. Qed.

(* --- 1. same requirements (as a set) => same imports, domain by domain -------------------------------------------- *)
Theorem policy_depends_on_requirement_set r r' :
  (forall dv, In dv r <-> In dv r') -> forall d, lookup String.eqb d (max_opset_policy r) = lookup String.eqb d (max_opset_policy r').
Proof.
  assert (Hhalf : forall a b, (forall dv, In dv a -> In dv b) -> (forall dv, In dv b -> In dv a) ->
            forall d v, lookup String.eqb d (max_opset_policy a) = Some v -> lookup String.eqb d (max_opset_policy b) = Some v).
  { intros a b Hab Hba d v H. destruct (policy_is_max a d v H) as [Hub (dv & Hin & Hd & Hv)].
    destruct (policy_covers b dv (Hab dv Hin)) as (v' & Hl & Hle). rewrite Hd in Hl. rewrite Hl. f_equal.
    destruct (policy_is_max b d v' Hl) as [_ (dv' & Hin' & Hd' & Hv')].
    pose proof (Hub dv' (Hba dv' Hin') Hd') as Hle'. lia. }
  intros Heq d.
  destruct (lookup String.eqb d (max_opset_policy r)) as [v|] eqn:E.
  - symmetry. apply (Hhalf r r'); [intros dv; apply Heq|intros dv; apply Heq|exact E].
  - destruct (lookup String.eqb d (max_opset_policy r')) as [v'|] eqn:E'; [|reflexivity].
    rewrite (Hhalf r' r (fun dv => proj2 (Heq dv)) (fun dv => proj1 (Heq dv)) d v' E') in E. discriminate.
Qed.

Corollary policy_order_independent r r' : Permutation r r' ->
  forall d, lookup String.eqb d (max_opset_policy r) = lookup String.eqb d (max_opset_policy r').
Proof.
  intros HP. apply policy_depends_on_requirement_set. intros dv. split; intros H.
  - eapply Permutation_in; eassumption.
  - eapply Permutation_in; [apply Permutation_sym|]; eassumption.
Qed.

Corollary policy_repeats_do_not_matter (r : req) : forall d,
  lookup String.eqb d (max_opset_policy (r ++ r)%list) = lookup String.eqb d (max_opset_policy r).
Proof.
  apply policy_depends_on_requirement_set. intros dv. split; intros H.
  - apply in_app_or in H. tauto.
  - apply in_or_app. now left.
Qed.

(* --- 2. the alias of the default domain never gets an import of its own ---------------------------------------------- *)
Lemma fold_domain_never_alias d : fold_domain d <> "ai.onnx"%string.
Proof.
  unfold fold_domain. destruct (String.eqb d "ai.onnx") eqn:E; [discriminate|].
  intros ->. rewrite String.eqb_refl in E. discriminate.
Qed.

Theorem policy_never_imports_alias r : lookup String.eqb "ai.onnx"%string (max_opset_policy r) = None.
Proof.
  destruct (lookup String.eqb "ai.onnx"%string (max_opset_policy r)) as [v|] eqn:E; [|reflexivity].
  destruct (policy_key_required r _ v E) as (dv & _ & Hd). exfalso. exact (fold_domain_never_alias _ Hd).
Qed.

(* requirements stated under the alias and under "" are one domain: the import of "" is the maximum over both *)
Theorem policy_alias_counts_for_default r v w :
  In ("ai.onnx"%string, v) r -> lookup String.eqb ""%string (max_opset_policy r) = Some w -> v <= w.
Proof.
  intros Hin Hl. destruct (policy_is_max r ""%string w Hl) as [Hub _]. exact (Hub ("ai.onnx"%string, v) Hin eq_refl).
Qed.

(* --- 3. nothing is imported that nothing requires ------------------------------------------------------------ *)
Theorem policy_imports_only_required_domains r d :
  (forall dv, In dv r -> fold_domain (fst dv) <> d) -> lookup String.eqb d (max_opset_policy r) = None.
Proof.
  intros Hn. destruct (lookup String.eqb d (max_opset_policy r)) as [v|] eqn:E; [|reflexivity].
  destruct (policy_key_required r d v E) as (dv & Hin & Hd). exfalso. exact (Hn dv Hin Hd).
Qed.

(* --- 4. more requirements never lower an import (requirements of bodies, functions and inlined models are merged into the owner's) --- *)
Theorem policy_monotone (r extra : req) d v :
  lookup String.eqb d (max_opset_policy r) = Some v ->
  exists w, lookup String.eqb d (max_opset_policy (r ++ extra)%list) = Some w /\ v <= w /\
            lookup String.eqb d (max_opset_policy (extra ++ r)%list) = Some w.
Proof.
  intros H. destruct (policy_is_max r d v H) as [_ (dv & Hin & Hd & Hv)].
  destruct (policy_covers (r ++ extra)%list dv (in_or_app _ _ _ (or_introl Hin))) as (w & Hl & Hle).
  rewrite Hd in Hl. exists w. split; [exact Hl|]. split; [lia|].
  rewrite <- Hl. apply policy_depends_on_requirement_set. intros x. split; intros Hx; apply in_app_or in Hx; apply in_or_app; tauto.
Qed.

Example policy_example :
  max_opset_policy [("ai.onnx"%string, 15); (""%string, 19); ("my.dom"%string, 2); (""%string, 17)] = [(""%string, 19); ("my.dom"%string, 2)] /\
  max_opset_policy [(""%string, 17); ("my.dom"%string, 2); (""%string, 19); ("ai.onnx"%string, 15)] = [(""%string, 19); ("my.dom"%string, 2)].
Proof. split; reflexivity. Qed.
