(* TypesEnum.v — the bounded domain of the C13 correspondence, enumerated by index, and the digests computed over it.
   harness/c13.py contains the same functions in Python (enumeration by index, encodings, digests, sampler); the model
   side is evaluated here with vm_compute, the implementation side in Python on the real objects.  No proofs. *)
From Coq Require Import List String ZArith NArith Bool.
From Spox Require Import Shape Types.
Import ListNotations.
Open Scope N_scope.

(* ---------------------------------------------------------------- enumeration *)
Definition dim_alpha : list dim := [DC 0%Z; DC 1%Z; DC 2%Z; DC 3%Z; DN "N"; DN "M"; DA].
Definition nth_dim (k : N) : dim := nth (N.to_nat k) dim_alpha DA.

(* r digits of k in the given base, most significant first *)
Fixpoint digits (base : N) (r : nat) (k : N) : list N :=
  match r with O => [] | S r' => (digits base r' (k / base) ++ [k mod base])%list end.

(* shapes: 0 = unknown rank, 1 = (), 2..8 rank 1, 9..57 rank 2, 58..400 rank 3 *)
Definition NSHAPES : N := 401.
Definition nth_shape (s : N) : shape :=
  if s =? 0 then None
  else if s <? 2 then Some []
  else if s <? 9 then Some (map nth_dim (digits 7 1 (s - 2)))
  else if s <? 58 then Some (map nth_dim (digits 7 2 (s - 9)))
  else Some (map nth_dim (digits 7 3 (s - 58))).

Definition nest (n : N) (t : ty) : ty :=
  match n with
  | 0 => t | 1 => TSeq t | 2 => TOpt t | 3 => TSeq (TSeq t) | 4 => TSeq (TOpt t) | 5 => TOpt (TSeq t) | _ => TOpt (TOpt t)
  end.

(* types: nesting n (7) x element code 1..26 x shape (401), then the seven nestings of Type() *)
Definition NTENSOR : N := 10426.    (* 26 * 401 *)
Definition NPROPER : N := 72982.    (* 7 * 10426 *)
Definition NTYPES : N := 72989.
Definition nth_type (i : N) : ty :=
  if i <? NPROPER then
    let t := i mod NTENSOR in nest (i / NTENSOR) (TTensor (t / NSHAPES + 1) (nth_shape (t mod NSHAPES)))
  else nest (i - NPROPER) TTop.

(* protos: dims over {0,1,2,3,"N","M","",unset}; element codes 0..27 (0 and 27 undefined); seven nestings; then PEmpty *)
Definition pdim_alpha : list pdim := [PValue 0%Z; PValue 1%Z; PValue 2%Z; PValue 3%Z; PParam "N"; PParam "M"; PParam ""; PNone].
Definition nth_pdim (k : N) : pdim := nth (N.to_nat k) pdim_alpha PNone.
Definition NPSHAPES : N := 586.
Definition nth_pshape (s : N) : option (list pdim) :=
  if s =? 0 then None
  else if s <? 2 then Some []
  else if s <? 10 then Some (map nth_pdim (digits 8 1 (s - 2)))
  else if s <? 74 then Some (map nth_pdim (digits 8 2 (s - 10)))
  else Some (map nth_pdim (digits 8 3 (s - 74))).
Definition pnest (n : N) (t : tproto) : tproto :=
  match n with
  | 0 => t | 1 => PSeq t | 2 => POpt t | 3 => PSeq (PSeq t) | 4 => PSeq (POpt t) | 5 => POpt (PSeq t) | _ => POpt (POpt t)
  end.
Definition NPTENSOR : N := 16408.   (* 28 * 586 *)
Definition NPPROPER : N := 114856.  (* 7 * 16408 *)
Definition NPROTOS : N := 114863.
Definition nth_proto (i : N) : tproto :=
  if i <? NPPROPER then
    let t := i mod NPTENSOR in pnest (i / NPTENSOR) (PTensor (t / NPSHAPES) (nth_pshape (t mod NPSHAPES)))
  else pnest (i - NPPROPER) PEmpty.

(* concrete shapes over sizes {0,1,2,3}: 0 = (), 1..4 rank 1, 5..20 rank 2, 21..84 rank 3 *)
Definition NCSHAPES : N := 85.
Definition nth_cshape (c : N) : list N :=
  if c <? 1 then [] else if c <? 5 then digits 4 1 (c - 1) else if c <? 21 then digits 4 2 (c - 5) else digits 4 3 (c - 21).

(* ---------------------------------------------------------------- encodings (canonical numbers) *)
Definition enc_Z (n : Z) : N := if Z.ltb n 0 then 1 + 2 * Z.to_N (- n) else 2 * Z.to_N n.
Definition enc_dim (d : dim) : N :=
  match d with
  | DA => 1
  | DN s => if String.eqb s "N" then 2 else if String.eqb s "M" then 3 else 4
  | DC n => 5 + enc_Z n
  end.
Definition enc_shape (s : shape) : N :=
  match s with None => 0 | Some l => fold_left (fun acc d => acc * 64 + enc_dim d) l 1 end.
Fixpoint enc_ty (t : ty) : N :=
  match t with
  | TTop => 1
  | TTensor e s => 4 * (enc_shape s * 32 + e)
  | TSeq x => 4 * enc_ty x + 2
  | TOpt x => 4 * enc_ty x + 3
  end.
Definition enc_pdim (d : pdim) : N :=
  match d with
  | PNone => 1
  | PParam s => if String.eqb s "N" then 2 else if String.eqb s "M" then 3 else if String.eqb s "" then 4 else 5
  | PValue n => 6 + enc_Z n
  end.
Definition enc_pshape (s : option (list pdim)) : N :=
  match s with None => 0 | Some l => fold_left (fun acc d => acc * 64 + enc_pdim d) l 1 end.
Fixpoint enc_proto (p : tproto) : N :=
  match p with
  | PEmpty => 1
  | PTensor e s => 4 * (enc_pshape s * 32 + e)
  | PSeq x => 4 * enc_proto x + 2
  | POpt x => 4 * enc_proto x + 3
  end.
Definition enc_bres (r : bres) : N := match r with BRaise => 0 | BShape s => 1 + enc_shape s end.
Definition enc_np (r : option (list N)) : N :=
  match r with None => 0 | Some l => 1 + fold_left (fun acc n => acc * 8 + n + 1) l 1 end.
Definition b2n (b : bool) : N := if b then 1 else 0.

(* ---------------------------------------------------------------- digests *)
Definition M60 : N := 1152921504606846975.   (* 2^60 - 1; checksums are taken modulo 2^60 *)
(* (number of non-zero values, position-weighted checksum) *)
Definition digest (vals : list N) : N * N :=
  let '(_, c, s) := fold_left (fun '(pos, c, s) v => (pos + 1, (if v =? 0 then c else c + 1), N.land (s + (pos + 1) * (v + 1)) M60))
                              vals (0, 0, 0) in (c, s).
Fixpoint range_aux (n : nat) (lo : N) : list N := match n with O => [] | S n' => lo :: range_aux n' (lo + 1) end.
Definition range (lo n : N) : list N := range_aux (N.to_nat n) lo.

(* single types: the emitted TypeProto (0 = refused) *)
Definition val_to_onnx (i : N) : N := match to_onnx (nth_type i) with Some p => enc_proto p | None => 0 end.
(* single protos: the type constructed from it (0 = refused) *)
Definition val_from_onnx (i : N) : N := match from_onnx (nth_proto i) with Some t => enc_ty t | None => 0 end.
Definition row_to_onnx (lo n : N) := digest (map val_to_onnx (range lo n)).
Definition row_from_onnx (lo n : N) := digest (map val_from_onnx (range lo n)).

(* shape pairs: Shape.__le__ and Shape.broadcast *)
Definition val_shape_pair (a b : shape) : N := 2 * enc_bres (broadcast a b) + b2n (shape_le a b).
Definition all_shapes : list shape := map nth_shape (range 0 NSHAPES).
Definition row_shape (shapes : list shape) (i : N) := digest (map (val_shape_pair (nth_shape i)) shapes).
Definition vals_shape (shapes : list shape) (i : N) := map (val_shape_pair (nth_shape i)) shapes.

(* numpy rule on concrete shapes *)
Definition all_cshapes : list (list N) := map nth_cshape (range 0 NCSHAPES).
Definition vals_np (i : N) := map (fun b => enc_np (np_broadcast (nth_cshape i) b)) all_cshapes.
Definition row_np (i : N) := digest (vals_np i).

(* type pairs *)
Definition val_pair (a b : ty) : N := b2n (subtype a b) + 2 * b2n (ty_eqb a b).
Definition val_pair3 (a b : ty) : N := b2n (subtype a b) + 2 * b2n (subtype b a) + 4 * b2n (ty_eqb a b).
Definition vals_pairs (tys : list ty) (a : ty) := map (val_pair a) tys.
Definition row_pairs (tys : list ty) (a : ty) := digest (vals_pairs tys a).

(* deterministic sampler of pairs of the full domain *)
Definition M32 : N := 4294967295.
Definition mix (seed k : N) : N :=
  let x := N.land (seed * 1000003 + k * 7919 + 12345) M32 in
  let y := N.land (N.shiftr (x * x) 16) M32 in
  N.land (N.shiftr (y * 48271 + k) 3) M32.
Definition sample_pair (seed k : N) : N * N :=
  let i := mix seed (3 * k) mod NTYPES in
  let h := mix seed (3 * k + 1) in
  let m := mix seed (3 * k + 2) mod 8 in
  if (NPROPER <=? i) || (m =? 0) then (i, h mod NTYPES) else
  let n := i / NTENSOR in let t := i mod NTENSOR in let e := t / NSHAPES in let s := t mod NSHAPES in
  if m <? 5 then (i, n * NTENSOR + e * NSHAPES + h mod NSHAPES)        (* same nesting and element type, another shape *)
  else if m =? 5 then (i, n * NTENSOR + (h mod 26) * NSHAPES + s)       (* another element type *)
  else if m =? 6 then (i, (h mod 7) * NTENSOR + t)                      (* another nesting *)
  else (i, NPROPER + h mod 7).                                          (* a Type()-based right operand *)
Definition val_sample (seed k : N) : N := let '(i, j) := sample_pair seed k in val_pair3 (nth_type i) (nth_type j).
Definition vals_sample (seed lo n : N) := map (val_sample seed) (range lo n).
Definition row_sample (seed lo n : N) := digest (vals_sample seed lo n).
