(* OpsTableFacts.v — the three finite checks on the committed snapshot of numpy's tables (OpsTable.v), by
   computation, and their lifting through the general lemmas of OpsFacts.v.  The harness re-proves exactly these
   statements on the tables regenerated from the installed numpy on every run. *)
From Coq Require Import ZArith List Bool.
From Spox Require Import Ops OpsFacts OpsTable.
Import ListNotations.
Open Scope Z_scope.

Lemma check_promo0 : check_promo rt0 np0 = true.
Proof. vm_compute. reflexivity. Qed.
Lemma check_nopromo0 : check_nopromo np0 = true.
Proof. vm_compute. reflexivity. Qed.
Lemma check_lossless0 : check_lossless rt0 = true.
Proof. vm_compute. reflexivity. Qed.

Definition promo_dtype_is_numpys0 := promo_dtype_is_numpys rt0 np0 check_promo0.
Definition nopromo_dtype_is_numpys0 := nopromo_dtype_is_numpys rt0 np0 check_nopromo0.
Definition int_promotion_lossless0 := int_promotion_lossless rt0 check_lossless0.
Definition promotion_cast_keeps_value0 := promotion_cast_keeps_value rt0 check_lossless0.

(* without promotion, / on integer Vars is ONNX's integer Div and keeps the integer type (documented in
   operator_overloading's docstring); numpy's / gives float64 — the numpy claim of the property is for promotion on *)
Lemma truediv_without_promotion_keeps_int :
  exists e, disp_arith rt0 repaired (mk_setting false true) TrueDiv (OVar I32) (OVar I32) = Ok e I32 /\
            np0 TrueDiv (TE I32) (TE I32) = Some F64 /\ ieval e (-7) 2 = Some (-3).
Proof. eexists. repeat split; reflexivity. Qed.

(* satisfiability of the table theorems' hypotheses on non-trivial inputs *)
Example ex_promo_int8_uint8 :
  exists e, disp_arith rt0 repaired (mk_setting true true) Add (OVar I8) (OVar U8) = Ok e I16 /\
            np0 Add (TE I8) (TE U8) = Some I16 /\ ieval e (-128) 255 = Some 127.
Proof. eexists. repeat split; reflexivity. Qed.
Example ex_promo_truediv_ints :
  exists e, disp_arith rt0 repaired (mk_setting true true) TrueDiv (OVar I8) (OPyInt 2) = Ok e F64 /\ np0 TrueDiv (TE I8) TWI = Some F64.
Proof. eexists. split; reflexivity. Qed.
Example ex_promo_uint64_int64 :
  exists e, disp_arith rt0 repaired (mk_setting true true) Mul (OVar U64) (OVar I64) = Ok e F64 /\ np0 Mul (TE U64) (TE I64) = Some F64.
Proof. eexists. split; reflexivity. Qed.
Example ex_promo_overflow :
  disp_arith rt0 repaired (mk_setting true true) Add (OVar U8) (OPyInt 300) = Err EOverflow.
Proof. reflexivity. Qed.
