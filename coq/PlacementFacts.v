(* PlacementFacts.v — INNERMOST PLACEMENT, by construction (no validator): after the scope resolution of Builder.build_main
   (update_scope_tree over the discovered graphs, parents first, with the alternating-walk lca on a scope tree that is itself being
   built), the graph a node is assigned to is the LOWEST COMMON ANCESTOR, in the FINAL scope tree, of all graphs whose traversal
   contains the node:  it encloses every such graph, and every graph that encloses all of them encloses it.
   Ingredients: DiscoverFacts (a graph is finished before every graph whose traversal contains its owner, so — parents first — the
   owner's placement, hence the graph's parent, is FINAL by the time the graph is processed, and never changes afterwards);
   CoverageFacts.K (assigned scopes are processed graphs); every processed graph's ancestor chain reaches the main graph within
   |graphs| steps, so the walk's fuel suffices; LcaFacts.glca_correct (the walk returns the lowest common ancestor). *)
From Coq Require Import List String NArith Arith Bool Lia.
From Spox Require Import Base IR Show Build Sem Plan Named Validate DfsFacts ReachFacts DiscoverFacts ScopeFacts EmitFacts CoverageFacts LcaFacts BuildFacts.
Import ListNotations.
Open Scope list_scope.

Lemma glca_ext (S : nat -> Prop) par1 par2 : (forall x, S x -> par1 x = par2 x) -> (forall x, S x -> S (par1 x)) ->
  forall fuel a b va vb, S a -> S b -> glca par1 fuel a b va vb = glca par2 fuel a b va vb.
Proof. intros He Hc. induction fuel as [|f IH]; intros a b va vb Ha Hb; cbn [glca]; [reflexivity|].
  destruct (Base.mem Nat.eqb a vb); [reflexivity|]. rewrite <- (He a Ha). apply IH; [exact Hb|now apply Hc]. Qed.

Section Placement.
Variable p : prog.
Variable rank : nref -> nat.
Hypothesis Hrank : forall u v, In v (full_adj p u) -> rank v < rank u.
Hypothesis Hfuel : forall u, rank u < fuel_of p.
Variable main : nat.
Variable d : dstate.
Hypothesis Hd : discover (fuel_of p) p dstate0 main = inl d.

Let gt := rev (d_post d).
Let own := d_own d.
Let scf := scopes_of p d.
Definition sc_at (l : list nat) : list (nref * nat) := fold_left (update_scope_tree p own) l [].
Definition parf (h : nat) : nat := parent own scf h.
Definition Anc (c h : nat) : Prop := exists k, up parf k h = c.

Lemma Anc_refl h : Anc h h. Proof. exists 0. reflexivity. Qed.
Lemma Anc_trans a b c : Anc a b -> Anc b c -> Anc a c.
Proof. intros [m Hm] [k Hk]. exists (m + k). rewrite up_add, Hk. exact Hm. Qed.

Lemma gt_NoDup : NoDup gt.
Proof. unfold gt. apply NoDup_rev. exact (proj1 (discover_facts p rank Hrank main d Hd)). Qed.
Lemma gt_post h : In h gt <-> In h (d_post d).
Proof. unfold gt. symmetry. apply in_rev. Qed.

(* every graph whose traversal contains the carrier of graph h comes strictly before h (parents first) *)
Lemma users_earlier l1 h l2 x k : gt = l1 ++ h :: l2 -> In (k, h) (subs_of p x) ->
  forall E, In E (d_post d) -> In x (trav p E) -> In E l1.
Proof.
  intros Egt Hk E HE HxE. destruct (discover_facts p rank Hrank main d Hd) as [_ [_ [Hown _]]].
  destruct (Hown E HE x k h HxE Hk) as [_ [a [b [c Eb]]]].
  assert (E2 : gt = (rev c ++ E :: rev b) ++ h :: rev a).
  { unfold gt. rewrite Eb. rewrite rev_app_distr. cbn [rev]. rewrite rev_app_distr. cbn [rev]. rewrite <- !app_assoc. cbn. reflexivity. }
  rewrite Egt in E2. apply NoDup_split_unique in E2; [|rewrite <- Egt; apply gt_NoDup]. rewrite E2. apply in_or_app. right. now left.
Qed.

Lemma sc_final l1 l2 x : gt = l1 ++ l2 -> (forall E, In E l2 -> ~ In x (trav p E)) -> lookup nref_eqb x scf = lookup nref_eqb x (sc_at l1).
Proof. intros Egt H. unfold scf, scopes_of. fold gt. fold own. rewrite Egt, fold_left_app. apply fold_frame. exact H. Qed.

(* the carrier of h is not traversed by h or by any later graph *)
Lemma carrier_not_later l1 h l2 o : gt = l1 ++ h :: l2 -> lookup Nat.eqb h own = Some o -> forall E, In E (h :: l2) -> ~ In o (trav p E).
Proof.
  intros Egt Ho E HE HoE. destruct (proj2 (discover_facts2 p rank Hrank main d Hd) h o Ho) as [k [D [Hk _]]].
  assert (HEp : In E (d_post d)). { apply gt_post. rewrite Egt. apply in_or_app. now right. }
  pose proof (users_earlier l1 h l2 o k Egt Hk E HEp HoE) as H1.
  eapply NoDup_app_disj; [rewrite <- Egt; apply gt_NoDup|exact H1|exact HE].
Qed.

(* the parent of a graph is final from the moment the graph is about to be processed *)
Lemma parent_stable l1 h l2 sc' : gt = l1 ++ h :: l2 ->
  (forall o, lookup Nat.eqb h own = Some o -> lookup nref_eqb o sc' = lookup nref_eqb o (sc_at l1)) -> parent own sc' h = parf h.
Proof.
  intros Egt H. unfold parf, parent. destruct (lookup Nat.eqb h own) as [o|] eqn:Eo; [|reflexivity].
  rewrite (H o eq_refl). rewrite (sc_final l1 (h :: l2) o Egt (carrier_not_later l1 h l2 o Egt Eo)). reflexivity.
Qed.

Lemma K_at l : K p l (sc_at l).
Proof. apply (fold_K p own l [] []). split; [intros u s H; discriminate H|intros E []]. Qed.

(* the parent of a processed (or about to be processed) graph is the graph itself or a graph processed strictly earlier *)
Lemma parf_earlier l1 h l2 : gt = l1 ++ h :: l2 -> parf h = h \/ In (parf h) l1.
Proof.
  intros Egt. rewrite <- (parent_stable l1 h l2 (sc_at l1) Egt (fun _ _ => eq_refl)). unfold parent.
  destruct (lookup Nat.eqb h own) as [o|]; [|now left]. destruct (lookup nref_eqb o (sc_at l1)) as [s|] eqn:E; [|now left].
  right. eapply (proj1 (K_at l1)). exact E.
Qed.

Lemma parf_of_nonroot l1 h l2 : gt = l1 ++ h :: l2 -> h <> main -> In (parf h) l1.
Proof.
  intros Egt Hne. destruct (discover_facts p rank Hrank main d Hd) as [_ [_ [Hown [Hjust _]]]].
  assert (Hp : In h (d_post d)). { apply gt_post. rewrite Egt. apply in_or_app. right. now left. }
  destruct (Hjust h Hp) as [->|[D [x [k [HD [Hx Hk]]]]]]; [contradiction|].
  destruct (Hown D HD x k h Hx Hk) as [Ho _]. fold own in Ho.
  rewrite <- (parent_stable l1 h l2 (sc_at l1) Egt (fun _ _ => eq_refl)). unfold parent. rewrite Ho.
  pose proof (users_earlier l1 h l2 x k Egt Hk D HD Hx) as HD1.
  destruct (proj2 (K_at l1) D HD1 x Hx) as [s Hs]. rewrite Hs. eapply (proj1 (K_at l1)). exact Hs.
Qed.

(* every processed graph's chain reaches the main graph, within as many steps as there are graphs before it *)
Lemma chain_main : forall n l1 h l2, List.length l1 <= n -> gt = l1 ++ h :: l2 -> exists k, k <= List.length l1 /\ up parf k h = main.
Proof.
  induction n as [|n IH]; intros l1 h l2 Hn Egt.
  - destruct l1; [|cbn in Hn; lia]. destruct (Nat.eq_dec h main) as [->|Hne]; [exists 0; split; [lia|reflexivity]|].
    destruct (parf_of_nonroot [] h l2 Egt Hne).
  - destruct (Nat.eq_dec h main) as [->|Hne]; [exists 0; split; [lia|reflexivity]|].
    pose proof (parf_of_nonroot l1 h l2 Egt Hne) as Hin. apply in_split in Hin. destruct Hin as [a [b Eab]].
    assert (Ha : List.length a <= n). { rewrite Eab, app_length in Hn. cbn in Hn. lia. }
    destruct (IH a (parf h) (b ++ h :: l2) Ha) as [k [Hk Hup]]. { rewrite Egt, Eab, <- app_assoc. reflexivity. }
    exists (S k). split; [rewrite Eab, app_length; cbn; lia|exact Hup].
Qed.

Lemma gt_length : List.length gt < fuel_of p.
Proof. unfold gt. rewrite rev_length. pose proof (proj1 (discover_facts2 p rank Hrank main d Hd)). unfold fuel_of. lia. Qed.

(* ---------- one graph g is processed: gt = l1 ++ g :: l2 ---------- *)
Section Step.
Variables (l1 l2 : list nat) (g : nat).
Hypothesis Egt : gt = l1 ++ g :: l2.
Let sc0 := sc_at l1.
Definition Sg (h : nat) : Prop := In h (l1 ++ [g]).

Lemma Sg_split h : Sg h -> exists a b, gt = a ++ h :: b /\ (forall E, In E (g :: l2) -> In E (h :: b)).
Proof.
  intros Hh. apply in_app_or in Hh. destruct Hh as [Hh|[<-|[]]].
  - apply in_split in Hh. destruct Hh as [a [b Eab]]. exists a, (b ++ g :: l2). split; [rewrite Egt, Eab, <- app_assoc; reflexivity|].
    intros E HE. right. apply in_or_app. now right.
  - exists l1, l2. split; [exact Egt|auto].
Qed.

(* while the nodes of g are being relaxed, the parents of all graphs processed so far (and of g) are the final ones *)
Lemma parent_in_fold sc' : (forall u, ~ In u (trav p g) -> lookup nref_eqb u sc' = lookup nref_eqb u sc0) ->
  forall h, Sg h -> parent own sc' h = parf h.
Proof.
  intros Hfr h Hh. destruct (Sg_split h Hh) as [a [b [Eab Hlater]]].
  apply (parent_stable a h b sc' Eab). intros o Ho.
  assert (Hno : forall E, In E (h :: b) -> ~ In o (trav p E)) by (apply (carrier_not_later a h b o Eab Ho)).
  rewrite Hfr; [|apply Hno; apply Hlater; now left].
  (* sc0 = sc_at l1 and sc_at a agree on o: both equal the final value *)
  unfold sc0. rewrite <- (sc_final l1 (g :: l2) o Egt); [|intros E HE; apply Hno; now apply Hlater].
  apply (sc_final a (h :: b) o Eab Hno).
Qed.

Lemma Sg_closed h : Sg h -> Sg (parf h).
Proof.
  intros Hh. destruct (Sg_split h Hh) as [a [b [Eab _]]]. destruct (parf_earlier a h b Eab) as [->|Hin]; [exact Hh|].
  unfold Sg. apply in_app_or in Hh. destruct Hh as [Hh|[<-|[]]].
  - (* h in l1: a is a prefix of l1 *)
    apply in_split in Hh. destruct Hh as [a' [b' Eab']]. assert (a = a').
    { eapply NoDup_split_unique; [rewrite <- Eab; apply gt_NoDup|]. rewrite <- Eab, Egt, Eab', <- app_assoc. reflexivity. }
    subst a'. apply in_or_app. left. rewrite Eab'. apply in_or_app. now left.
  - assert (a = l1). { eapply NoDup_split_unique; [rewrite <- Eab; apply gt_NoDup|]. rewrite <- Eab. exact Egt. }
    subst a. apply in_or_app. now left.
Qed.

Lemma Sg_chain h : Sg h -> exists k, k <= List.length l1 /\ up parf k h = main.
Proof.
  intros Hh. destruct (Sg_split h Hh) as [a [b [Eab _]]]. destruct (chain_main (List.length a) a h b (le_n _) Eab) as [k [Hk Hup]].
  exists k. split; [|exact Hup]. assert (List.length a <= List.length l1); [|lia].
  apply in_app_or in Hh. destruct Hh as [Hh|[<-|[]]].
  - apply in_split in Hh. destruct Hh as [a' [b' Eab']]. assert (a = a').
    { eapply NoDup_split_unique; [rewrite <- Eab; apply gt_NoDup|]. rewrite <- Eab, Egt, Eab', <- app_assoc. reflexivity. }
    subst a'. rewrite Eab', app_length. lia.
  - assert (a = l1). { eapply NoDup_split_unique; [rewrite <- Eab; apply gt_NoDup|]. rewrite <- Eab. exact Egt. }
    subst a. lia.
Qed.

(* the walk, run on the scope tree as it stands in the middle of the fold, returns the lowest common ancestor in the FINAL tree *)
Lemma lca_in_fold sc' cur : (forall u, ~ In u (trav p g) -> lookup nref_eqb u sc' = lookup nref_eqb u sc0) -> Sg cur ->
  let c := lca (2 * fuel_of p) own sc' g cur [g] [cur] in
  Anc c g /\ Anc c cur /\ forall c', Anc c' g -> Anc c' cur -> Anc c' c.
Proof.
  intros Hfr Hcur. cbv zeta. rewrite lca_is_glca.
  assert (Hg : Sg g) by (apply in_or_app; right; now left).
  rewrite (glca_ext Sg (parent own sc') parf (parent_in_fold sc' Hfr)); [| |exact Hg|exact Hcur].
  2:{ intros x Hx. rewrite (parent_in_fold sc' Hfr x Hx). now apply Sg_closed. }
  destruct (Sg_chain g Hg) as [i [Hi Ei]]. destruct (Sg_chain cur Hcur) as [j [Hj Ej]].
  assert (Hlen : List.length l1 < List.length gt). { rewrite Egt, app_length. cbn. lia. }
  pose proof gt_length as HF.
  destruct (glca_correct parf g cur (2 * fuel_of p) i j ltac:(congruence) ltac:(lia)) as [[i' [j' [E1 E2]]] Hlow].
  split; [exists i'; now rewrite <- E1|]. split; [exists j'; now rewrite <- E2|].
  intros c' [a Ha] [b Hb]. destruct (Hlow a b ltac:(congruence)) as [m Hm]. exists m. rewrite <- Hm. exact Ha.
Qed.
End Step.

(* ---------- the invariant: what is assigned so far is the lowest common ancestor of the users processed so far ---------- *)
Definition Mprop (l : list nat) (u : nref) (s : nat) : Prop :=
  (forall E, In E l -> In u (trav p E) -> Anc s E) /\
  (forall c, (forall E, In E l -> In u (trav p E) -> Anc c E) -> Anc c s) /\
  (exists E, In E l /\ In u (trav p E)).
Definition M (l : list nat) (sc : list (nref * nat)) : Prop := forall u s, lookup nref_eqb u sc = Some s -> Mprop l u s.

Lemma trav_NoDup g : NoDup (trav p g).
Proof. assert (Hdeps : forall a b, In b (deps p a) -> rank b < rank a) by (intros a b Hb; apply Hrank; now apply deps_full).
  exact (proj1 (postorder_spec (deps p) rank Hdeps (fuel_of p) (NIntro g) (Hfuel _))). Qed.

Lemma M_step l1 g l2 : gt = l1 ++ g :: l2 -> M l1 (sc_at l1) -> M (l1 ++ [g]) (sc_at (l1 ++ [g])).
Proof.
  intros Egt HM. unfold sc_at at 1. rewrite fold_left_app. cbn [fold_left]. fold (sc_at l1). rewrite ust_unfold.
  set (sc0 := sc_at l1).
  (* fold over the traversal of g *)
  assert (HQ : forall ns done sc', NoDup (done ++ ns) -> (forall x, In x (done ++ ns) -> In x (trav p g)) ->
            (forall u, ~ In u done -> lookup nref_eqb u sc' = lookup nref_eqb u sc0) ->
            (forall u s, In u done -> lookup nref_eqb u sc' = Some s -> Mprop (l1 ++ [g]) u s) ->
            let sc'' := fold_left (ust_step p own g) ns sc' in
            (forall u, ~ In u (done ++ ns) -> lookup nref_eqb u sc'' = lookup nref_eqb u sc0) /\
            (forall u s, In u (done ++ ns) -> lookup nref_eqb u sc'' = Some s -> Mprop (l1 ++ [g]) u s)).
  { induction ns as [|nd t IH]; intros done sc' Hnd Hsub Hfr Hdone; cbn [fold_left].
    - rewrite app_nil_r. split; assumption.
    - replace (done ++ nd :: t) with ((done ++ [nd]) ++ t) in * by (rewrite <- app_assoc; reflexivity).
      assert (Hndone : ~ In nd done).
      { intros Hc. rewrite <- app_assoc in Hnd. cbn in Hnd. apply NoDup_remove_2 in Hnd. apply Hnd. apply in_or_app. now left. }
      assert (Hndg : In nd (trav p g)). { apply Hsub. apply in_or_app. left. apply in_or_app. right. now left. }
      assert (Hfr' : forall u, ~ In u (trav p g) -> lookup nref_eqb u sc' = lookup nref_eqb u sc0).
      { intros u Hu. apply Hfr. intros Hc. apply Hu. apply Hsub. apply in_or_app. left. apply in_or_app. now left. }
      set (cur := match lookup nref_eqb nd sc' with Some s => s | None => g end).
      assert (Hcur : Sg l1 g cur).
      { unfold cur. rewrite (Hfr nd Hndone). destruct (lookup nref_eqb nd sc0) as [s|] eqn:E.
        - apply in_or_app. left. eapply (proj1 (K_at l1)). exact E.
        - apply in_or_app. right. now left. }
      destruct (lca_in_fold l1 l2 g Egt sc' cur Hfr' Hcur) as [Hcg [Hcc Hlow]].
      set (c := lca (2 * fuel_of p) own sc' g cur [g] [cur]) in *.
      assert (L : forall u, lookup nref_eqb u (ust_step p own g sc' nd) = if nref_eqb u nd then Some c else lookup nref_eqb u sc').
      { intros u. unfold ust_step. fold cur. fold c. apply (lookup_set_assoc nref_eqb nref_eqb_spec). }
      apply IH; [exact Hnd|exact Hsub| |].
      + intros u Hu. rewrite L. destruct (nref_eqb_spec u nd) as [->|]; [exfalso; apply Hu; apply in_or_app; right; now left|].
        apply Hfr. intros Hc. apply Hu. apply in_or_app. now left.
      + intros u s Hu Hs. rewrite L in Hs. destruct (nref_eqb_spec u nd) as [->|Hne].
        * inversion Hs; subst s. clear Hs.
          assert (Hgl : In g (l1 ++ [g])) by (apply in_or_app; right; now left).
          destruct (lookup nref_eqb nd sc0) as [cur0|] eqn:E0.
          -- assert (cur = cur0) by (unfold cur; rewrite (Hfr nd Hndone), E0; reflexivity). subst cur0.
             destruct (HM nd cur E0) as [Ma [Mb _]]. split; [|split].
             ++ intros E HE HuE. apply in_app_or in HE. destruct HE as [HE|[<-|[]]]; [|exact Hcg].
                eapply Anc_trans; [exact Hcc|]. now apply Ma.
             ++ intros c' Hc'. apply Hlow; [apply Hc'; assumption|]. apply Mb. intros E HE HuE. apply Hc'; [apply in_or_app; now left|exact HuE].
             ++ exists g. split; assumption.
          -- assert (cur = g) by (unfold cur; rewrite (Hfr nd Hndone), E0; reflexivity).
             split; [|split].
             ++ intros E HE HuE. apply in_app_or in HE. destruct HE as [HE|[<-|[]]]; [|exact Hcg].
                exfalso. destruct (proj2 (K_at l1) E HE nd HuE) as [s Hs]. fold sc0 in Hs. congruence.
             ++ intros c' Hc'. apply Hlow; [apply Hc'; assumption|]. rewrite H. apply Hc'; assumption.
             ++ exists g. split; assumption.
        * apply in_app_or in Hu. destruct Hu as [Hu|[<-|[]]]; [|contradiction]. now apply Hdone. }
  destruct (HQ (trav p g) [] sc0) as [Hfr Hin]; cbn [app]; [apply trav_NoDup|auto|auto|intros u s []|].
  intros u s Hs. destruct (in_dec (fun a b => match nref_eqb_spec a b with ReflectT _ e => left e | ReflectF _ n => right n end) u (trav p g)) as [Hu|Hu].
  - now apply Hin.
  - rewrite (Hfr u Hu) in Hs. destruct (HM u s Hs) as [Ma [Mb [E [HE HuE]]]]. split; [|split].
    + intros E' HE' HuE'. apply in_app_or in HE'. destruct HE' as [HE'|[<-|[]]]; [now apply Ma|contradiction].
    + intros c' Hc'. apply Mb. intros E' HE' HuE'. apply Hc'; [apply in_or_app; now left|exact HuE'].
    + exists E. split; [apply in_or_app; now left|exact HuE].
Qed.

Lemma M_all : forall l1 l2, gt = l1 ++ l2 -> M l1 (sc_at l1).
Proof.
  induction l1 as [|g l IH] using rev_ind; intros l2 Egt; [intros u s H; discriminate H|].
  rewrite <- app_assoc in Egt. cbn [app] in Egt. apply (M_step l g l2 Egt). eapply IH. exact Egt.
Qed.

(* The scope a node ends up in is the lowest common ancestor, in the final scope tree, of all the graphs whose traversal contains it. *)
Theorem placement_is_lowest_common_ancestor u s : lookup nref_eqb u scf = Some s ->
  (forall E, In E (d_post d) -> In u (trav p E) -> Anc s E) /\
  (forall c, (forall E, In E (d_post d) -> In u (trav p E) -> Anc c E) -> Anc c s) /\
  (exists E, In E (d_post d) /\ In u (trav p E)).
Proof.
  intros Hs. assert (HM : M gt (sc_at gt)) by (apply (M_all gt []); now rewrite app_nil_r).
  destruct (HM u s Hs) as [Ma [Mb [E [HE HuE]]]]. split; [|split].
  - intros E' HE'. apply Ma. now apply gt_post.
  - intros c Hc. apply Mb. intros E' HE' HuE'. apply Hc; [now apply gt_post|exact HuE'].
  - exists E. split; [now apply gt_post|exact HuE].
Qed.
End Placement.
