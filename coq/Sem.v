(* Sem.v — semantics used by C01 (and by C08/C14 through abstract operator meanings):
   [eval]      : meaning of a Var of the source program (the dataflow DAG with subgraph closures), for ANY operator semantics;
   [run_graph] : execution of an emitted nested graph structure ("plan": the emitted model with names erased, i.e. which source
                 node was emitted in which graph, in which order), node by node, with an environment of defined values;
   [wf]        : structural well-formedness of a plan (each input defined earlier in the same or an enclosing graph, outputs fresh,
                 body arguments local, subplans match the node's subgraphs).
   Generic over the program accessors (Section variables); instantiated with a reflected [prog] in SemFacts.v.  No proofs here. *)
From Coq Require Import List Arith Bool.
From Spox Require Import Base IR.
Import ListNotations.

Section Sem.
Variable val : Type.
Variable dv : val.
Definition clos := list val -> list val.

(* ---------- the source program, abstractly ---------- *)
Variable is_argn : nref -> bool.
Variable insn : nref -> list (option var).
Variable subsn : nref -> list nat.
Variable gargsn : nat -> list var.
Variable gresn : nat -> list var.
Variable noutsn : nref -> nat.
Variable opsem : nref -> list (option val) -> list clos -> list val.

Definition venv := list (var * val).
Fixpoint lookupd (x : var) (e : venv) : val :=
  match e with [] => dv | (y, v) :: t => if var_eqb x y then v else lookupd x t end.
Fixpoint bindv (xs : list var) (av : list val) : venv :=
  match xs with [] => [] | x :: t => (x, hd dv av) :: bindv t (tl av) end.

Fixpoint eval (f : nat) (rho : venv) (v : var) : val :=
  match f with O => dv | S f' =>
    match v with V n o =>
      if is_argn n then lookupd v rho else
      nth o (opsem n (map (option_map (eval f' rho)) (insn n))
                     (map (fun g av => map (eval f' (bindv (gargsn g) av ++ rho)) (gresn g)) (subsn n))) dv
    end end.

(* ---------- the emitted structure ---------- *)
Inductive plan := PGraph (g : nat) (body : list (nref * list plan)).
Definition pgid (p : plan) := match p with PGraph g _ => g end.

Definition step (rg : plan -> venv -> list val -> list val) (e : venv) (nd : nref * list plan) : venv :=
  let outs := opsem (fst nd) (map (option_map (fun x => lookupd x e)) (insn (fst nd))) (map (fun s av => rg s e av) (snd nd)) in
  (map (fun o => (V (fst nd) o, nth o outs dv)) (seq 0 (noutsn (fst nd))) ++ e)%list.
Fixpoint run_graph (pl : plan) (env : venv) (av : list val) {struct pl} : list val :=
  match pl with PGraph g body =>
    let env1 := fold_left (step run_graph) body (bindv (gargsn g) av ++ env)%list in
    map (fun r => lookupd r env1) (gresn g)
  end.

Definition outvars (n : nref) : list var := map (V n) (seq 0 (noutsn n)).
Definition is_argv (v : var) := match v with V n _ => is_argn n end.

Section WfBody.
Variable wfrec : plan -> list var -> Prop.
Variable g : nat.
Fixpoint wf_body (D : list var) (b : list (nref * list plan)) {struct b} : Prop :=
  match b with
  | [] => forall r, In r (gresn g) -> In r D
  | nd :: t =>
      is_argn (fst nd) = false /\ (forall x, In (Some x) (insn (fst nd)) -> In x D) /\ map pgid (snd nd) = subsn (fst nd) /\
      (forall o, ~ In (V (fst nd) o) D) /\
      fold_right (fun s acc => wfrec s D /\ acc) True (snd nd) /\
      wf_body (outvars (fst nd) ++ D)%list t
  end.
End WfBody.
(* A : arguments of enclosing graphs;  D : everything defined so far (arguments included) *)
Fixpoint wf (pl : plan) (A D : list var) {struct pl} : Prop :=
  match pl with PGraph g body =>
    NoDup (gargsn g) /\ (forall a, In a (gargsn g) -> is_argv a = true /\ ~ In a A /\ ~ In a D) /\
    wf_body (fun s => wf s (gargsn g ++ A)%list) g (gargsn g ++ D)%list body
  end.

(* ---------- executable check of [wf] ---------- *)
Section WfBodyB.
Variable wfrec : plan -> list var -> bool.
Variable g : nat.
Fixpoint wf_body_b (D : list var) (b : list (nref * list plan)) {struct b} : bool :=
  match b with
  | [] => forallb (fun r => mem var_eqb r D) (gresn g)
  | nd :: t =>
      negb (is_argn (fst nd)) &&
      forallb (fun ox => match ox with Some x => mem var_eqb x D | None => true end) (insn (fst nd)) &&
      list_eqb Nat.eqb (map pgid (snd nd)) (subsn (fst nd)) &&
      negb (existsb (fun d => nref_eqb (vnode d) (fst nd)) D) &&
      forallb (fun s => wfrec s D) (snd nd) &&
      wf_body_b (outvars (fst nd) ++ D)%list t
  end.
End WfBodyB.
Fixpoint wf_b (pl : plan) (A D : list var) {struct pl} : bool :=
  match pl with PGraph g body =>
    nodupb var_eqb (gargsn g) &&
    forallb (fun a => is_argv a && negb (mem var_eqb a A) && negb (mem var_eqb a D)) (gargsn g) &&
    wf_body_b (fun s => wf_b s (gargsn g ++ A)%list) g (gargsn g ++ D)%list body
  end.
End Sem.
