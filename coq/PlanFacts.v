(* PlanFacts.v — the PLAN of a model that build_main returns (the emitted model with names erased: which application sits in which
   graph, in which order, with which nested bodies) IS the program's ownership map unfolded along the subgraph attributes — a function
   [spec_plan] of the program and the scope resolution alone.  By construction (no validator): compile adds nothing and drops nothing.
   Consequence (build_sem_by_construction): the semantic theorem of C01 no longer needs a check of the model's OUTPUT; its premise is
   that the specification-level plan, computed from the program alone, is well-formed (decidable, evaluated on every program). *)
From Coq Require Import List String NArith Arith Bool Lia.
From Spox Require Import Base IR Show Build Sem Plan Named Validate DfsFacts ScopeFacts EmitFacts BuildFacts SemFacts.
Import ListNotations.
Open Scope list_scope.

Lemma foldM_relT {A S T} (f : S -> A -> res S) (m : S -> list T) (e : A -> list T) :
  (forall s a s', f s a = inl s' -> m s' = m s ++ e a) ->
  forall l s s', foldM f l s = inl s' -> m s' = m s ++ flat_map e l.
Proof. intros Hf. induction l as [|a t IH]; intros s s' H; cbn [foldM] in H.
  - inversion H; subst. cbn. now rewrite app_nil_r.
  - apply bind_ok in H. destruct H as [s1 [H1 H2]]. apply IH in H2. apply Hf in H1. rewrite H2, H1. cbn. now rewrite app_assoc. Qed.

Section SpecPlan.
Variables (p : prog) (un : names) (args_of : nat -> list var) (own_of : nat -> list nref)
          (fbuild : nat -> nat -> res (list mnode * req * list fdesc)).
Notation compile := (compile p un args_of own_of fbuild).

Definition attr_plans (rec : nat -> nat -> plan) (u : nref) (ka : String.string * attrv) : list plan :=
  match snd ka with AGraph sub => [rec (sub_id p u (fst ka)) sub] | AVal _ => [] end.
Definition node_plans (rec : nat -> nat -> plan) (u : nref) : list plan :=
  match u with
  | NReal n => match kind (getn p n) with
               | KOp | KFunc _ _ _ _ => flat_map (attr_plans rec u) (attrs (getn p n))
               | _ => [] end
  | NIntro _ => [] end.
Definition node_entry (rec : nat -> nat -> plan) (u : nref) : list (nref * list plan) :=
  if is_arg p u then [] else [(u, node_plans rec u)].
(* [gid] = the graph id the plan is labelled with (for a body: the id found under the attribute's NAME), [g] = the graph compiled *)
Fixpoint spec_plan (fuel : nat) (gid g : nat) : plan :=
  match fuel with O => PGraph gid [] | S f => PGraph gid (flat_map (node_entry (spec_plan f)) (own_of g)) end.

Definition al_plans (u : nref) (al : list (String.string * option mgraph)) : list plan :=
  flat_map (fun ka => match snd ka with Some g => [plan_of_graph p (sub_id p u (fst ka)) g] | None => [] end) al.

Lemma pog_unfold gid ai ms ro : plan_of_graph p gid (MGraph ai ms ro) = PGraph gid (map (plan_of_node p) ms).
Proof. cbn [plan_of_graph]. f_equal; try (induction ms as [|n t IH]; [reflexivity|]; cbn [map]; now rewrite <- IH). Qed.
Lemma pon_node nm op dom u i o al : plan_of_node p (MNode nm op dom u i o al) = (u, al_plans u al).
Proof. cbn [plan_of_node]. f_equal; try (unfold al_plans; induction al as [|[k [g|]] t IH]; cbn [flat_map snd fst app]; [reflexivity| |]; now rewrite <- IH). Qed.
Lemma al_plans_app u a b : al_plans u (a ++ b) = al_plans u a ++ al_plans u b.
Proof. unfold al_plans. apply flat_map_app. Qed.

Theorem compile_plan : forall fuel s g prefix is_main mg s' rq fs,
  compile fuel s g prefix is_main = inl (mg, s', rq, fs) -> forall gid, plan_of_graph p gid mg = spec_plan fuel gid g.
Proof.
  induction fuel as [|f IH]; intros s g prefix is_main mg s' rq fs H gid; [discriminate H|].
  cbn [Build.compile] in H.
  apply bind_ok in H. destruct H as [s1 [_ H]].
  apply bind_ok in H. destruct H as [[[[[ms0 s3] rq3] fs0] sfs] [H2 H]].
  destruct (Nat.eqb (List.length (gres (getg p g))) 0); [discriminate H|].
  apply bind_ok in H. destruct H as [ai0 [_ H]]. apply bind_ok in H. destruct H as [ro0 [_ H]]. inversion H; subst.
  rewrite pog_unfold. cbn [spec_plan]. f_equal.
  apply (foldM_relT _ (fun acc : list mnode * scope * req * list fdesc * list fdesc => map (plan_of_node p) (fst (fst (fst (fst acc)))))
                    (node_entry (spec_plan f))) in H2; [exact H2|].
  clear - IH. intros [[[[ms s] rq] fs] sfs] u [[[[ms' s'] rq'] fs'] sfs'] Hu. cbn [fst]. unfold node_entry, node_plans. unfold compile_step in Hu.
  destruct (is_arg p u) eqn:Ea; [inversion Hu; subst; now rewrite app_nil_r|].
  assert (Hsg : forall (l : list (String.string * attrv)) a0 al sz rqz fz prefix0,
            foldM (fun (acc : list (String.string * option mgraph) * scope * req * list fdesc) (ka : String.string * attrv) =>
                     let '(l, s, rq, fs) := acc in
                     match snd ka with
                     | AVal _ => ret ((l ++ [(fst ka, None)])%list, s, rq, fs)
                     | AGraph sub =>
                       do r <- compile f s sub (prefix0 ++ "_" ++ fst ka ++ "__")%string (Some false) ;;
                       let '(mg, s', rq', fs') := r in
                       ret ((l ++ [(fst ka, Some mg)])%list, s', union req_eqb rq rq', (fs ++ fs')%list)
                     end) l a0 = inl (al, sz, rqz, fz) ->
            al_plans u al = al_plans u (fst (fst (fst a0))) ++ flat_map (attr_plans (spec_plan f) u) l).
  { intros l a0 al sz rqz fz prefix0 Hf.
    apply (foldM_relT _ (fun acc : list (String.string * option mgraph) * scope * req * list fdesc => al_plans u (fst (fst (fst acc))))
                      (attr_plans (spec_plan f) u)) in Hf; [exact Hf|].
    intros [[[l0 sa] rqa] fsa] ka [[[l' sb] rqb] fsb] Hka. cbn [fst]. unfold attr_plans.
    destruct (snd ka) as [sub|x].
    - apply bind_ok in Hka. destruct Hka as [[[[mg0 s0] rq0] fs0] [Hc Hka]]. inversion Hka; subst.
      rewrite al_plans_app. unfold al_plans at 2. cbn [flat_map snd fst app]. f_equal. f_equal. eapply IH; exact Hc.
    - inversion Hka; subst. rewrite al_plans_app. unfold al_plans at 2. cbn [flat_map snd app]. now rewrite app_nil_r. }
  destruct u as [n|g'].
  - apply bind_ok in Hu. destruct Hu as [[rqm fsm] [_ Hu]].
    apply bind_ok in Hu. destruct Hu as [s2 [_ Hu]].
    destruct (kind (getn p n)) as [| | |om imp|body fi fo fa] eqn:Hk.
    + cbn in Ea. rewrite Hk in Ea. discriminate.
    + apply bind_ok in Hu. destruct Hu as [o [_ Hu]]. inversion Hu; subst. now rewrite map_app.
    + apply bind_ok in Hu. destruct Hu as [nm [_ Hu]]. apply bind_ok in Hu. destruct Hu as [inn [_ Hu]].
      apply bind_ok in Hu. destruct Hu as [outn [_ Hu]]. apply bind_ok in Hu. destruct Hu as [[[[al s3] rq3] sfs3] [Hal Hu]].
      inversion Hu; subst. rewrite map_app. cbn [map]. rewrite pon_node. apply Hsg in Hal. cbn [fst] in Hal. rewrite Hal. reflexivity.
    + apply bind_ok in Hu. destruct Hu as [nm [_ Hu]]. destruct om as [gi gin body go_ vi].
      apply bind_ok in Hu. destruct Hu as [[ri sri] [_ Hu]]. apply bind_ok in Hu. destruct Hu as [[rb srb] [_ Hu]].
      apply bind_ok in Hu. destruct Hu as [[ro sro] [_ Hu]]. apply bind_ok in Hu. destruct Hu as [[rvi srvi] [_ Hu]].
      apply bind_ok in Hu. destruct Hu as [ids [_ Hu]]. apply bind_ok in Hu. destruct Hu as [inn [_ Hu]].
      apply bind_ok in Hu. destruct Hu as [outn [_ Hu]]. inversion Hu; subst. now rewrite map_app.
    + apply bind_ok in Hu. destruct Hu as [nm [_ Hu]]. apply bind_ok in Hu. destruct Hu as [inn [_ Hu]].
      apply bind_ok in Hu. destruct Hu as [outn [_ Hu]]. apply bind_ok in Hu. destruct Hu as [[[[al s3] rq3] sfs3] [Hal Hu]].
      inversion Hu; subst. rewrite map_app. cbn [map]. rewrite pon_node. apply Hsg in Hal. cbn [fst] in Hal. rewrite Hal. reflexivity.
  - apply bind_ok in Hu. destruct Hu as [s2 [_ Hu]].
    apply bind_ok in Hu. destruct Hu as [nm [_ Hu]]. apply bind_ok in Hu. destruct Hu as [i [_ Hu]].
    apply bind_ok in Hu. destruct Hu as [o [_ Hu]]. inversion Hu; subst. now rewrite map_app.
Qed.
End SpecPlan.

(* ---------- instantiated at build_main: the plan is a function of the program alone ---------- *)
Definition spec_plan_of (p : prog) (main : nat) : option plan :=
  match discover (fuel_of p) p dstate0 main with
  | inl d => Some (spec_plan p (own_of_def p d main) (fuel_of p) main main)
  | inr _ => None end.

Theorem build_main_plan ffuel p un main b :
  build_main ffuel p un main = inl b -> spec_plan_of p main = Some (plan_of_graph p main (b_graph b)).
Proof. destruct ffuel as [|ff]; [discriminate|]. unfold build_main. cbn [build_main_gen]. intros H.
  apply bind_ok in H. destruct H as [d [Hd H]]. apply bind_ok in H. destruct H as [[[[mg s] rq] fs] [Hc H]].
  inversion H; subst. cbn [b_graph]. unfold spec_plan_of. rewrite Hd. f_equal. symmetry.
  exact (compile_plan _ _ _ _ _ _ _ _ _ _ _ _ _ _ Hc main).
Qed.

(* the premise of the semantic theorem, on the PROGRAM: its specification-level plan is a well-formed linearisation *)
Definition spec_check (p : prog) (main : nat) : bool :=
  match spec_plan_of p main with
  | Some pl => Plan.acyclic_b p main && inR p main (NIntro main) &&
               wf_b (is_argP p) (insP p main) (subsP p main) (gargsP p) (gresP p) (noutsP p) pl [] []
  | None => false end.

Theorem build_main_check ffuel p un main b :
  build_main ffuel p un main = inl b -> spec_check p main = true -> check_plan p main (b_graph b) = true.
Proof. intros H Hs. unfold spec_check in Hs. rewrite (build_main_plan _ _ _ _ _ H) in Hs. exact Hs. Qed.

(* ---------- the semantic theorem of C01 without a check of the output ---------- *)
Lemma checked_plan_sem p args outputs mg :
  let p' := with_main p (Some args) outputs in
  check_plan p' 0 mg = true ->
  forall (val : Type) (dv : val) (opsem : nat -> list (option val) -> list (clos val) -> list val),
  (forall n ivs c1 c2, Forall2 (fun a b => forall av, a av = b av) c1 c2 -> opsem n ivs c1 = opsem n ivs c2) ->
  forall av,
  run_plan p' 0 val dv opsem (plan_of_graph p' 0 mg) av =
  map (meaning p' 0 val dv opsem (bindv val dv args av)) (map snd outputs).
Proof.
  intros p' Hc val dv opsem Hext av.
  assert (Ha : acyclic_b p' 0 = true) by (unfold check_plan in Hc; apply andb_prop in Hc; destruct Hc as [Hc _]; apply andb_prop in Hc; tauto).
  rewrite (plan_sem p' 0 Ha val dv opsem Hext mg Hc av).
  assert (Hin0 : inR p' 0 (NIntro 0) = true) by (unfold check_plan in Hc; apply andb_prop in Hc; destruct Hc as [Hc _]; apply andb_prop in Hc; tauto).
  change (gargsP p' 0) with args.
  unfold gresP. rewrite map_map. change (gres (getg p' 0)) with outputs.
  apply nth_ext with (d := dv) (d' := dv); [now rewrite !map_length, seq_length|].
  intros i Hi'. rewrite map_length, seq_length in Hi'.
  rewrite (nth_indep _ dv (meaning p' 0 val dv opsem (bindv val dv args av) (V (NIntro 0) 0))) by (now rewrite map_length, seq_length).
  rewrite (map_nth (fun x => meaning p' 0 val dv opsem (bindv val dv args av) (V (NIntro 0) x))), seq_nth by assumption. cbn [Nat.add].
  destruct (nth_error outputs i) as [kv|] eqn:Ek; [|apply nth_error_None in Ek; lia].
  rewrite (meaning_intro p' 0 Ha val dv opsem Hext _ 0 i (snd kv) Hin0) by (unfold greqP; change (gres (getg p' 0)) with outputs; now rewrite nth_error_map, Ek).
  symmetry. rewrite (nth_indep _ dv (meaning p' 0 val dv opsem (bindv val dv args av) (snd kv))) by (now rewrite !map_length).
  rewrite map_map. rewrite (map_nth (fun x : String.string * var => meaning p' 0 val dv opsem (bindv val dv args av) (snd x))).
  now rewrite (nth_error_nth _ _ _ Ek).
Qed.

Theorem build_sem_by_construction p r m inputs outputs :
  build_public p r = inl m -> all_vars (r_inputs r) = Some inputs -> all_vars (r_outputs r) = Some outputs ->
  exists args, (r_drop r = false -> args = map snd inputs) /\ (forall a, In a args -> In a (map snd inputs)) /\
    let p' := with_main p (Some args) outputs in
    spec_check p' 0 = true ->
    forall (val : Type) (dv : val) (opsem : nat -> list (option val) -> list (clos val) -> list val),
    (forall n ivs c1 c2, Forall2 (fun a b => forall av, a av = b av) c1 c2 -> opsem n ivs c1 = opsem n ivs c2) ->
    forall av,
    run_plan p' 0 val dv opsem (plan_of_graph p' 0 (mmain m)) av =
    map (meaning p' 0 val dv opsem (bindv val dv args av)) (map snd outputs).
Proof.
  intros H Hi Ho. unfold build_public in H. rewrite Hi, Ho in H.
  destruct (negb _); [discriminate|]. destruct outputs as [|o os]; [discriminate|].
  apply bind_ok in H. destruct H as [args [Ha H]]. apply bind_ok in H. destruct H as [b [Hb H]].
  apply bind_ok in H. destruct H as [m' [Hm H]]. pose proof (to_model_struct _ _ Hm) as (_ & Hmg & _).
  destruct (mmain m') as [gi body go_] eqn:Eg. destruct (forallb _ gi); [|discriminate]. inversion H; subst m'.
  exists args. split; [intros Hd; rewrite Hd in Ha; inversion Ha; reflexivity|]. split.
  - destruct (r_drop r).
    + apply bind_ok in Ha. destruct Ha as [b1 [_ Ha]]. destruct (forallb _ (b_args b1)); [|discriminate]. inversion Ha; subst.
      intros a Hin. apply filter_In in Hin. tauto.
    + inversion Ha; subst. auto.
  - intros p' Hs val dv opsem Hext av. rewrite Eg, Hmg. apply checked_plan_sem; [|exact Hext].
    eapply build_main_check; [exact Hb|exact Hs].
Qed.

(* the premise as a function of the request (evaluated on every generated program that builds: non-vacuity) *)
Definition spec_check_req (p : prog) (r : request) : bool :=
  match all_vars (r_inputs r), all_vars (r_outputs r) with
  | Some i, Some o => spec_check (final_prog p r i o) 0
  | _, _ => false end.
