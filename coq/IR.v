(* IR.v — the program IR that spox.build sees (reflected from the real object graph Var._op / Node.inputs /
   Node.attrs by harness/buildlib.py), the request of the public build() call, and the emitted model.  No proofs. *)
From Coq Require Import List String NArith Arith Bool.
From Spox Require Import Base.
Import ListNotations.
Open Scope string_scope.

(* ---------- source side ---------- *)
Inductive nref := NReal (n : nat) | NIntro (g : nat).   (* node made by the user | result-identity node of graph g (fresh per build) *)
Inductive var := V (n : nref) (o : nat).                 (* o = position among the node's flattened outputs *)

Definition nref_eqb a b :=
  match a, b with NReal x, NReal y => Nat.eqb x y | NIntro x, NIntro y => Nat.eqb x y | _, _ => false end.
Definition var_eqb a b := match a, b with V n o, V n' o' => nref_eqb n n' && Nat.eqb o o' end.
Definition vnode (v : var) : nref := match v with V n _ => n end.
Definition vidx (v : var) : nat := match v with V _ o => o end.

(* a reported type, as far as build looks at it: canonical rendering (computed by the reflector from the spox Type
   object, independently of Type._to_onnx) and whether it is concrete (a Tensor with a rank, or a non-tensor type) *)
Record tinfo := { tshow : string; tconcrete : bool }.

(* foreign graph of an inlined model (after inline()'s normalisation), in the order rename_in_graph visits names *)
Inductive onode := ONode (oname oop odomain : string) (oins oouts : list string) (oattrs : list (string * option ograph))
with ograph := OGraph (oinputs oinits : list string) (obody : list onode) (ooutputs : list string) (ovalue_info : list string).

Inductive nkind :=
| KArg                       (* spox.internal Argument *)
| KInit                      (* spox.internal Initializer *)
| KOp                        (* any standard or custom operator *)
| KInline (m : ograph) (imports : list (string * nat))
| KFunc (body : nat) (fins fouts fattrs : list string).   (* Function node; body = id of its func_graph; FunctionProto signature *)

Inductive attrv := AGraph (g : nat) | AVal (rendering : string).

Record node := {
  kind : nkind;
  ident : string; domain : string; version : nat;          (* op_type *)
  ins : list (option var);                                  (* BaseInputs._flatten order; None = omitted optional *)
  outs : list string;                                       (* output field names, flattened (variadic: name_i) *)
  attrs : list (string * attrv);                            (* set attributes, field order *)
  min_in : nat; min_out : nat;                              (* schema minima (standard) / arity (custom) *)
  vtys : list (option tinfo);                               (* Var.type of each output *)
  vnames : list (option string)                             (* Var._name of each output before the build *)
}.

Record graph := { gargs : option (list var); gres : list (string * var) }.   (* requested_arguments / requested_results *)

Record prog := { nodes : list node; graphs : list graph }.

Definition dnode : node :=
  {| kind := KOp; ident := "?"; domain := ""; version := 0; ins := []; outs := []; attrs := []; min_in := 0; min_out := 0;
     vtys := []; vnames := [] |}.
Definition dgraph : graph := {| gargs := None; gres := [] |}.
Definition getn (p : prog) (n : nat) : node := nth n (nodes p) dnode.
Definition getg (p : prog) (g : nat) : graph := nth g (graphs p) dgraph.

Definition subs (nd : node) : list (string * nat) :=
  flat_map (fun ka => match snd ka with AGraph g => [(fst ka, g)] | AVal _ => [] end) (attrs nd).

(* the public request build(inputs, outputs, drop_unused_inputs) *)
Inductive pyobj := PVar (v : var) | POther.
Record request := { r_inputs : list (string * pyobj); r_outputs : list (string * pyobj); r_drop : bool }.

(* ---------- emitted side ---------- *)
Inductive mnode :=
| MNode (name op dom : string) (src : nref) (inputs outputs : list string) (mattrs : list (string * option mgraph))
| MInit (name : string) (src : nref)                                   (* entry of GraphProto.initializer *)
| MIntro (name : string) (src : nref) (inputs outputs : list string)   (* k Identity nodes <name>_id<i> *)
| MInline (name : string) (src : nref) (inputs outputs : list string) (body : list mraw)   (* renamed nodes of an inlined model;
                                                                          inputs/outputs = names of the Inline node's operand / result Vars *)
with mgraph := MGraph (ginputs : list (string * string)) (body : list mnode) (goutputs : list (string * string))
with mraw := MRaw (name op dom : string) (inputs outputs : list string) (rattrs : list (string * option mrawgraph))
with mrawgraph := MRawGraph (rinputs rinits : list string) (rbody : list mraw) (routputs : list string).

Record mfunction := { f_domain : string; f_name : string; f_inputs : list string; f_outputs : list string;
                      f_attrs : list string; f_body : list mnode; f_imports : list (string * nat);
                      f_bodyid : nat  (* ghost: id of the body graph in the program; not rendered *);
                      f_vals : string (* digest of the attribute VALUES inside the body: not rendered, but part of what makes two
                                         FunctionProtos equal or different *) }.
Record model := { mmain : mgraph; mimports : list (string * nat); mfunctions : list mfunction }.
