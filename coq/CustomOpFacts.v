(* CustomOpFacts.v — proofs about CustomOp.v (C18). *)
From Coq Require Import List String Bool Arith NArith Lia.
From Spox Require Import NodeProto NodeProtoFacts CustomOp.
Import ListNotations.
Local Open Scope list_scope.

(* ------------------------------------------------------------------------------------------------ verbatim emission *)
Theorem custom_verbatim nm nn bs c :
  s_min (c_sig c) = None ->
  let n := emit nm nn bs c in
  n_op n = s_op (c_sig c) /\ n_domain n = s_domain (c_sig c) /\ n_name n = nn /\
  n_inputs n = names_of nm (in_flat c) /\ n_outputs n = names_of nm (out_flat c) /\
  List.length (n_inputs n) = List.length (in_flat c) /\ List.length (n_outputs n) = List.length (out_flat c) /\
  n_attrs n = filter_map (attr_emitted bs) (c_attrs c).
Proof.
  intros H n. destruct (generic_not_trimmed nm nn bs c H) as [Hi Ho]. subst n.
  repeat split; try reflexivity; try assumption.
  - rewrite Hi. unfold names_of. apply map_length.
  - rewrite Ho. unfold names_of. apply map_length.
  - apply attrs_forwarded.
Qed.

(* positions: slot by slot, a present Var contributes its name, an omitted optional the empty name, a variadic
   field its members in order *)
Definition slot_names (nm : nat -> string) (a : arg nat) : list string :=
  match a with
  | ASingle v => [nm v]
  | AOpt (Some v) => [nm v]
  | AOpt None => [EmptyString]
  | AVariadic l => map nm l
  end.
Lemma names_of_flatten nm : forall sl al, List.length sl = List.length al ->
  names_of nm (flatten sl al) = flat_map (slot_names nm) al.
Proof.
  induction sl as [|s sl IH]; intros [|a al] H; try discriminate; [reflexivity|].
  cbn [flatten flat_map]. rewrite names_of_app. f_equal; [|apply IH; cbn in H; lia].
  destruct a as [v|[v|]|l]; cbn [flatten1 slot_names]; try reflexivity. apply names_of_enum.
Qed.
Theorem custom_inputs_in_declared_order nm nn bs c :
  s_min (c_sig c) = None -> List.length (s_ins (c_sig c)) = List.length (c_ins c) ->
  n_inputs (emit nm nn bs c) = flat_map (slot_names nm) (c_ins c).
Proof. intros H Hl. destruct (generic_not_trimmed nm nn bs c H) as [Hi _]. rewrite Hi. apply names_of_flatten. exact Hl. Qed.
Theorem custom_outputs_in_declared_order nm nn bs c :
  s_min (c_sig c) = None -> List.length (s_outs (c_sig c)) = List.length (c_outs c) ->
  n_outputs (emit nm nn bs c) = flat_map (slot_names nm) (c_outs c).
Proof. intros H Hl. destruct (generic_not_trimmed nm nn bs c H) as [_ Ho]. rewrite Ho. apply names_of_flatten. exact Hl. Qed.

(* ------------------------------------------------------------------------------------------------ opset import: maximum *)
Lemma policy_upper reqs d' : forall m, policy_version reqs d' = Some m ->
  forall d v, In (d, v) reqs -> norm_domain d = d' -> (v <= m)%N.
Proof.
  induction reqs as [|[d0 v0] reqs IH]; intros m Hm d v Hin Hd; [destruct Hin|].
  cbn [policy_version] in Hm. destruct Hin as [Hin|Hin].
  - inversion Hin; subst d0 v0. subst d'. unfold seqb in Hm. rewrite String.eqb_refl in Hm.
    destruct (policy_version reqs (norm_domain d)); inversion Hm; lia.
  - destruct (seqb (norm_domain d0) d') eqn:E.
    + destruct (policy_version reqs d') as [m0|] eqn:E0.
      * inversion Hm; subst m. specialize (IH m0 eq_refl d v Hin Hd). lia.
      * exfalso. clear - E0 Hin Hd. induction reqs as [|[d1 v1] reqs IH]; [destruct Hin|]. cbn [policy_version] in E0.
        destruct Hin as [Hin|Hin].
        -- inversion Hin; subst. unfold seqb in E0. rewrite String.eqb_refl in E0. destruct (policy_version reqs (norm_domain d)); discriminate.
        -- destruct (seqb (norm_domain d1) d'); [destruct (policy_version reqs d'); discriminate|auto].
    + eapply IH; eassumption.
Qed.
Lemma policy_attained reqs d' : forall m, policy_version reqs d' = Some m -> exists d, In (d, m) reqs /\ norm_domain d = d'.
Proof.
  induction reqs as [|[d0 v0] reqs IH]; intros m Hm; [discriminate|]. cbn [policy_version] in Hm.
  destruct (seqb (norm_domain d0) d') eqn:E.
  - apply String.eqb_eq in E. destruct (policy_version reqs d') as [m0|] eqn:E0.
    + inversion Hm; subst m. destruct (N.max_spec v0 m0) as [[_ Hx]|[_ Hx]]; rewrite Hx.
      * destruct (IH m0 eq_refl) as [d [H1 H2]]. exists d. split; [right; exact H1|exact H2].
      * exists d0. split; [left; reflexivity|exact E].
    + inversion Hm; subst m. exists d0. split; [left; reflexivity|exact E].
  - destruct (IH m Hm) as [d [H1 H2]]. exists d. split; [right; exact H1|exact H2].
Qed.
Lemma policy_some reqs d v : In (d, v) reqs -> exists m, policy_version reqs (norm_domain d) = Some m.
Proof.
  induction reqs as [|[d0 v0] reqs IH]; intros Hin; [destruct Hin|]. cbn [policy_version]. destruct Hin as [Hin|Hin].
  - inversion Hin; subst. unfold seqb. rewrite String.eqb_refl. eexists; reflexivity.
  - destruct (IH Hin) as [m Hm]. rewrite Hm. destruct (seqb (norm_domain d0) (norm_domain d)); eexists; reflexivity.
Qed.
(* every domain that some node requires is imported, at the highest version any node requires for it *)
Theorem custom_import reqs d v :
  In (d, v) reqs ->
  exists m, policy_version reqs (norm_domain d) = Some m /\ (v <= m)%N /\
            (exists d1, In (d1, m) reqs /\ norm_domain d1 = norm_domain d) /\
            (forall d2 v2, In (d2, v2) reqs -> norm_domain d2 = norm_domain d -> (v2 <= m)%N).
Proof.
  intros Hin. destruct (policy_some reqs d v Hin) as [m Hm]. exists m. split; [exact Hm|].
  split; [eapply policy_upper; [exact Hm|exact Hin|reflexivity]|]. split; [apply policy_attained; exact Hm|].
  intros d2 v2 H2 Hd. eapply policy_upper; eassumption.
Qed.
Theorem no_import_without_requirement reqs d' :
  policy_version reqs d' = None <-> (forall d v, In (d, v) reqs -> norm_domain d <> d').
Proof.
  split.
  - intros H d v Hin Hd. destruct (policy_some reqs d v Hin) as [m Hm]. rewrite Hd in Hm. congruence.
  - intros H. destruct (policy_version reqs d') as [m|] eqn:E; [|reflexivity].
    destruct (policy_attained reqs d' m E) as [d [H1 H2]]. exfalso. exact (H d m H1 H2).
Qed.

(* ------------------------------------------------------------------------------------------------ hooks determine outputs *)
Section Hooks.
  Variables T V E : Type.
  Variable check : T -> V -> bool.
  Variable concrete : T -> bool.
  Definition expected_value (types : list (string * T)) (values : list (string * V)) (k : string) : option V :=
    match dict_get types k, dict_get values k with
    | Some t, Some v => if check t v then Some v else None
    | _, _ => None
    end.
  Theorem hooks_determine_outputs keys ic (types : list (string * T)) (values : list (string * V)) :
    exists ws, node_init check concrete keys ic (inr types : hook E T) (inr values : hook E V) =
      inr (map (fun k => {| o_key := k; o_type := dict_get types k; o_value := expected_value types values k |}) keys, ws) /\
      (forall k, In k keys -> dict_get types k = None -> In (WMissing k) ws) /\
      (forall k t v, In k keys -> dict_get types k = Some t -> dict_get values k = Some v -> check t v = false -> In (WDropped k) ws).
  Proof.
    eexists. unfold node_init. split; [f_equal; f_equal|split].
    - unfold merge_types. rewrite map_map. apply map_ext. intros k. cbn [fst snd]. unfold expected_value, merge_value. cbn [fst snd].
      destruct (dict_get types k); [|reflexivity]. destruct (dict_get values k); [|reflexivity]. destruct (check t v); reflexivity.
    - intros k Hk Ht. apply in_or_app. right. apply in_flat_map. exists (k, dict_get types k).
      split; [unfold merge_types; apply in_map_iff; exists k; split; [reflexivity|exact Hk]|].
      unfold validate. cbn [snd fst]. rewrite Ht. left. reflexivity.
    - intros k t v Hk Ht Hv Hc. apply in_or_app. left. apply in_flat_map. exists (k, dict_get types k).
      split; [unfold merge_types; apply in_map_iff; exists k; split; [reflexivity|exact Hk]|].
      unfold merge_value. cbn [snd fst]. rewrite Ht, Hv, Hc. left. reflexivity.
  Qed.
  (* an exception comes only from a hook, and is that hook's exception; the value hook is not reached if the type hook raises *)
  Theorem init_raises_iff_hook_raises keys ic (th : hook E T) (vh : hook E V) e :
    node_init check concrete keys ic th vh = inl e <-> th = inl e \/ (exists types, th = inr types /\ vh = inl e).
  Proof.
    unfold node_init. destruct th as [e1|types]; [|destruct vh as [e2|values]].
    - split; [intros H; inversion H; left; reflexivity|intros [H|[t [H _]]]; [inversion H; reflexivity|discriminate]].
    - split; [intros H; inversion H; right; exists types; split; reflexivity|intros [H|[t [_ H]]]; [discriminate|inversion H; reflexivity]].
    - split; [discriminate|intros [H|[t [_ H]]]; discriminate].
  Qed.
  (* no hooks at all: every output untyped and without value, one missing-type warning per output, no error *)
  Theorem absent_hooks keys ic :
    node_init check concrete keys ic (inr [] : hook E T) (inr [] : hook E V) =
    inr (map (fun k => {| o_key := k; o_type := None; o_value := None |}) keys, map WMissing keys).
  Proof.
    unfold node_init, merge_types. rewrite map_map. f_equal. f_equal.
    induction keys as [|k keys IH]; [reflexivity|]. cbn [map flat_map app] in *.
    assert (H0 : forall l : list string, flat_map (fun kt : string * option T => snd (merge_value T V check ([] : list (string * V)) kt))
                                   (map (fun k0 => (k0, @dict_get T [] k0)) l) = []).
    { induction l; [reflexivity|]. cbn. exact IHl. }
    rewrite H0 in *. cbn [app] in *. cbn. f_equal. exact IH.
  Qed.
End Hooks.

(* ------------------------------------------------------------------------------------------------ never converted *)
Lemma norm_custom d : is_default d = false -> norm_domain d = d.
Proof. unfold is_default, norm_domain. intros H. apply orb_false_elim in H. destruct H as [_ H]. rewrite H. reflexivity. Qed.
Lemma raw_max_some reqs d v : In (d, v) reqs -> exists m, raw_max reqs d = Some m.
Proof.
  induction reqs as [|[d0 v0] reqs IH]; intros Hin; [destruct Hin|]. cbn [raw_max]. destruct Hin as [Hin|Hin].
  - inversion Hin; subst. unfold seqb. rewrite String.eqb_refl. eexists; reflexivity.
  - destruct (IH Hin) as [m Hm]. rewrite Hm. destruct (seqb d0 d); eexists; reflexivity.
Qed.
Theorem custom_never_converted internal single has_graph d reqs v target same :
  is_default d = false -> In (d, v) reqs ->
  let r := adapt_decision internal single has_graph d reqs target same in
  (r = Unchanged \/ r = UnchangedWarned) /\
  (r = UnchangedWarned <->
   internal = false /\ single = true /\ has_graph = false /\ same = false /\ raw_max reqs d <> Some target).
Proof.
  intros Hd Hin r. subst r. unfold adapt_decision. rewrite (norm_custom d Hd). destruct (raw_max_some reqs d v Hin) as [m Hm]. rewrite Hm, Hd.
  destruct internal, single, has_graph; cbn [orb negb andb]; try (split; [left; reflexivity|split; [discriminate|intros [? [? [? _]]]; discriminate]]).
  destruct (N.eqb m target) eqn:Em, same; cbn [negb andb].
  - split; [left; reflexivity|split; [discriminate|intros [_ [_ [_ [? _]]]]; discriminate]].
  - split; [left; reflexivity|]. split; [discriminate|]. intros [_ [_ [_ [_ H]]]]. apply N.eqb_eq in Em. subst. congruence.
  - split; [left; reflexivity|split; [discriminate|intros [_ [_ [_ [? _]]]]; discriminate]].
  - split; [right; reflexivity|]. split; [|reflexivity]. intros _. repeat split. intros H. inversion H; subst. rewrite N.eqb_refl in Em. discriminate.
Qed.
(* the corner the code gets wrong: an operator whose declared domain is the literal "ai.onnx" makes the build crash *)
Theorem domain_alias_literal_refuted :
  exists reqs, In ("ai.onnx"%string, 1%N) reqs /\ adapt_decision false true false "ai.onnx" reqs 16%N false = Crash.
Proof. exists [("ai.onnx"%string, 1%N)]. split; [left; reflexivity|reflexivity]. Qed.

(* non-vacuity *)
Example custom_example :
  let c := {| c_sig := {| s_op := "MyOp"; s_domain := "com.x"; s_version := 3%N;
                          s_ins := [("X", KSingle); ("O", KOptional); ("Vs", KVariadic)]%string;
                          s_outs := [("Y", KSingle); ("Z", KOptional)]%string; s_min := None |};
              c_ins := [ASingle 0; AOpt None; AVariadic []]; c_outs := init_outputs [("Y", KSingle); ("Z", KOptional)]%string 0 1;
              c_attrs := [ {| a_key := "alpha"; a_set := Some ("alpha_renamed", AvData 2 "3") |}; {| a_key := "beta"; a_set := None |} ]%string;
              c_env := [] |} in
  let n := emit (fun v => nat_str v) "MyOp_0" dummy_subgraph c in
  n_inputs n = ["0"; ""]%string /\ n_outputs n = ["1"; "2"]%string /\ n_attrs n = [("alpha_renamed", OvData 2 "3")]%string /\
  policy_version [call_req c; ("com.x", 5%N); ("", 17%N); ("ai.onnx", 14%N)]%string "com.x" = Some 5%N /\
  policy_version [call_req c; ("com.x", 5%N); ("", 17%N); ("ai.onnx", 19%N)]%string "" = Some 19%N /\
  adapt_decision false true false "com.x" [call_req c] 5%N false = UnchangedWarned.
Proof. repeat split. Qed.
