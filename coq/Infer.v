(* Infer.v — C06: model of spox's hand-written output-type routines and an independent runtime shape/dtype
   specification of the same operators.

   Part 1  type algebra (element tag, dim = constant | named | unknown, shape = option (list dim), Tensor / non-tensor,
           None = untyped Var), runtime values (dtype, concrete shape), conformance.
   Part 2  [infer_<Op>] : the routine `infer_output_types` of the operator exactly as the code computes it, error
           classes included (src/spox/opset/ai/onnx/ml/v3.py, src/spox/opset/ai/onnx/v17.py:498 Compress,
           v17.py:1778 Loop, src/spox/_inline.py:110 + _public.py:245 inline).  Attributes are abstracted to what the
           routines look at (presence and length of list attributes, integer attributes).
   Part 3  [rt_<Op>]  : dtype and shape of the operator's runtime result as a function of the concrete input
           dtypes/shapes and attributes, written from the ONNX / ONNX-ML operator documentation
           (onnx.defs.get_schema(..).doc, onnx/reference/ops/aionnxml/*.py) — independent of Part 2.  [None] = the
           operator does not produce a value on such inputs.  Validated against onnxruntime by harness/c06.py.
   No proofs in this file. *)
From Coq Require Import List NArith ZArith Bool String.
Import ListNotations.
Open Scope N_scope.

(* ------------------------------------------------------------------------------------------------ Part 1: types *)

Inductive elem := F32 | F64 | F16 | I64 | I32 | I8 | U8 | Str | Bool_.

Definition elem_eqb (a b : elem) : bool :=
  match a, b with
  | F32, F32 | F64, F64 | F16, F16 | I64, I64 | I32, I32 | I8, I8 | U8, U8 | Str, Str | Bool_, Bool_ => true
  | _, _ => false
  end.

Inductive dim := DConst (n : N) | DNamed (s : string) | DUnk.
Definition shape := option (list dim).

(* [NonTensor c]: a Sequence/Optional type; [c] = whether spox regards it as concrete (`_is_concrete`). *)
Inductive ty := Tensor (e : elem) (s : shape) | NonTensor (concrete : bool).
Definition ity := option ty.                     (* Var.type; None = untyped *)

Inductive err := EInference | EType | EValue.    (* InferenceError | TypeError | ValueError *)
Inductive result (A : Type) := Ok (a : A) | Err (e : err).
Arguments Ok {A} a.
Arguments Err {A} e.

Definition val := (elem * list N)%type.          (* a runtime tensor: dtype and concrete shape *)

Definition dim_ok (n : N) (d : dim) : Prop := match d with DConst c => n = c | _ => True end.
Definition dim_okb (n : N) (d : dim) : bool := match d with DConst c => N.eqb n c | _ => true end.

(* same element type, same rank when a shape is reported, equal size in every constant dim *)
Definition conforms (v : val) (t : ty) : Prop :=
  match t with
  | Tensor e s => fst v = e /\ match s with None => True | Some ds => Forall2 dim_ok (snd v) ds end
  | NonTensor _ => False
  end.
Definition conforms_opt (v : val) (t : ity) : Prop := match t with None => True | Some t => conforms v t end.

Fixpoint dims_okb (l : list N) (ds : list dim) : bool :=
  match l, ds with
  | [], [] => true
  | n :: l, d :: ds => dim_okb n d && dims_okb l ds
  | _, _ => false
  end.
Definition conformsb (v : val) (t : ty) : bool :=
  match t with
  | Tensor e s => elem_eqb (fst v) e && match s with None => true | Some ds => dims_okb (snd v) ds end
  | NonTensor _ => false
  end.
Definition conforms_optb (v : val) (t : ity) : bool := match t with None => true | Some t => conformsb v t end.

(* a reported result is sound for a runtime result *)
Definition sound (inferred : result (list ity)) (rt : option (list val)) : Prop :=
  forall tys outs, inferred = Ok tys -> rt = Some outs -> Forall2 conforms_opt outs tys.

(* ------------------------------------------------------------------------------------------ Part 2: the routines *)

Definition is_concrete (t : ty) : bool :=
  match t with Tensor _ (Some _) => true | Tensor _ None => false | NonTensor c => c end.
(* BaseInputs.fully_typed *)
Definition fully_typed (l : list ity) : bool :=
  forallb (fun x => match x with Some t => is_concrete t | None => false end) l.

Definition dlen (l : list dim) : N := N.of_nat (List.length l).
(* `isinstance(last, int) and n not in {1, last}` *)
Definition count_mismatch (last : dim) (n : N) : bool :=
  match last with DConst c => negb (N.eqb n 1 || N.eqb n c) | _ => false end.

(* ArrayFeatureExtractor (ml/v3.py:43) *)
Definition infer_ArrayFeatureExtractor (x y : ity) : result (list ity) :=
  if negb (fully_typed [x; y]) then Ok [None] else
  match x, y with
  | Some (Tensor ex (Some sx)), Some (Tensor _ (Some sy)) =>
      if dlen sx <? 1 then Err EInference
      else if negb (dlen sy =? 1) then Err EInference
      else if dlen sx =? 1 then Ok [Some (Tensor ex (Some [DConst 1; last sy DUnk]))]
      else Ok [Some (Tensor ex (Some (removelast sx ++ [last sy DUnk])%list))]
  | _, _ => Err EType                                 (* unwrap_tensor of a Sequence/Optional *)
  end.

(* Binarizer (ml/v3.py:78) *)
Definition infer_Binarizer (x : ity) : result (list ity) := Ok [x].

(* CategoryMapper (ml/v3.py:126); attributes: lengths of cats_int64s / cats_strings when given *)
Definition infer_CategoryMapper (x : ity) (cats_int64s cats_strings : option N) : result (list ity) :=
  if negb (fully_typed [x]) then Ok [None] else
  match cats_int64s, cats_strings with
  | Some n1, Some n2 =>
      if negb (n1 =? n2) then Err EInference else
      match x with
      | Some (Tensor I64 s) => Ok [Some (Tensor Str s)]
      | Some (Tensor Str s) => Ok [Some (Tensor I64 s)]
      | Some (Tensor _ _) => Err EValue               (* `(elem_type,) = {int64, str_} - {dtype}` cannot unpack two *)
      | _ => Err EType
      end
  | _, _ => Err EInference
  end.

(* Imputer (ml/v3.py:202) *)
Definition infer_Imputer (x : ity) (imputed_value_floats imputed_value_int64s : option N) : result (list ity) :=
  if negb (fully_typed [x]) then Ok [None] else
  match x with
  | Some (Tensor e s) =>
      let chosen :=
        match e with
        | I64 => match imputed_value_floats with None => Ok imputed_value_int64s | Some _ => Err EInference end
        | F32 => match imputed_value_int64s with None => Ok imputed_value_floats | Some _ => Err EInference end
        | _ => Err EInference
        end in
      match chosen with
      | Err e => Err e
      | Ok None => Err EInference
      | Ok (Some n) =>
          let last := match s with Some (d :: l) => last (d :: l) DUnk | _ => DConst 1 end in
          if count_mismatch last n then Err EInference else Ok [x]
      end
  | _ => Err EType
  end.

(* LinearRegressor (ml/v3.py:314) *)
Definition infer_LinearRegressor (x : ity) : result (list ity) :=
  if negb (fully_typed [x]) then Ok [None] else
  match x with
  | Some (Tensor _ (Some sim)) =>
      match sim with
      | [a; b] => Ok [Some (Tensor F32 (Some [a; b]))]
      | [a] => Ok [Some (Tensor F32 (Some [DConst 1; a]))]
      | [] => Ok [Some (Tensor F32 (Some [DConst 1; DConst 1]))]
      | _ => Err EInference
      end
  | _ => Err EType
  end.

(* Normalizer (ml/v3.py:348) *)
Definition norm_known (norm : string) : bool :=
  (String.eqb norm "MAX" || String.eqb norm "L1" || String.eqb norm "L2")%bool.
Definition infer_Normalizer (x : ity) (norm : string) : result (list ity) :=
  if negb (norm_known norm) then Err EInference else Ok [x].

(* OneHotEncoder (ml/v3.py:377) *)
Definition infer_OneHotEncoder (x : ity) (cats_int64s cats_strings : option N) : result (list ity) :=
  if negb (fully_typed [x]) then Ok [None] else
  match (match cats_int64s with Some n => Some n | None => cats_strings end) with
  | None => Err EInference
  | Some n =>
      match x with
      | Some (Tensor _ (Some s)) => Ok [Some (Tensor F32 (Some (s ++ [DConst n])%list))]
      | _ => Err EType
      end
  end.

(* Scaler (ml/v3.py:470) *)
Definition infer_Scaler (x : ity) (scale offset : option N) : result (list ity) :=
  match x with
  | None => Ok [None]
  | Some t =>
      match scale, offset with
      | Some ns, Some no =>
          match t with
          | Tensor _ s =>
              let last := match s with Some (d :: l) => last (d :: l) DUnk | _ => DConst 1 end in
              if count_mismatch last ns then Err EInference
              else if count_mismatch last no then Err EInference
              else Ok [Some (Tensor F32 s)]
          | NonTensor _ => Err EType
          end
      | _, _ => Err EInference
      end
  end.

(* TreeEnsembleClassifier (ml/v3.py:530); outputs Y (labels), Z (scores) *)
Definition odim (n : option N) : dim := match n with Some n => DConst n | None => DUnk end.
Definition infer_TreeEnsembleClassifier (x : ity) (class_ids classlabels_int64s classlabels_strings : option N)
  : result (list ity) :=
  let e := odim class_ids in
  match (match classlabels_strings with Some _ => Some Str
         | None => match classlabels_int64s with Some _ => Some I64 | None => None end end) with
  | None => Err EInference
  | Some yt =>
      let out n := Ok [Some (Tensor yt (Some [n])); Some (Tensor F32 (Some [n; e]))] in
      if fully_typed [x] then
        match x with
        | Some (Tensor _ (Some [n; _])) => out n
        | Some (Tensor _ (Some _)) => Err EInference
        | _ => Err EType
        end
      else out DUnk
  end.

(* TreeEnsembleRegressor (ml/v3.py:594) *)
Definition infer_TreeEnsembleRegressor (x : ity) (n_targets : option N) : result (list ity) :=
  let out n := Ok [Some (Tensor F32 (Some [n; odim n_targets]))] in
  if fully_typed [x] then
    match x with
    | Some (Tensor _ (Some [n; _])) => out n
    | Some (Tensor _ (Some _)) => Err EInference
    | _ => Err EType
    end
  else out DUnk.

(* Compress (v17.py:498).  [onnx_rejects] = outcome of the preceding call of ONNX's own inference, which may raise
   (its result is otherwise discarded). *)
Fixpoint set_nth {A} (l : list A) (i : nat) (a : A) : list A :=
  match l, i with
  | [], _ => []
  | _ :: t, O => a :: t
  | h :: t, S i => h :: set_nth t i a
  end.
Definition infer_Compress (onnx_rejects : bool) (inp cond : ity) (axis : option Z) : result (list ity) :=
  if onnx_rejects then Err EInference else
  match inp, cond with
  | None, _ | _, None => Ok [None]                     (* an untyped input: no check, the output is untyped (after fix F30) *)
  | Some (Tensor e s), Some (Tensor ce cs) =>
      match s with
      | None | Some [] => Ok [Some (Tensor e None)]
      | Some sh =>
          if negb (elem_eqb ce Bool_) then Err EInference
          else if (match cs with Some (d :: l) => negb (dlen (d :: l) =? 1) | _ => false end) then Err EInference
          else match axis with
               | Some a =>
                   let r := Z.of_nat (List.length sh) in
                   if negb ((- r <=? a) && (a <? r))%Z then Err EInference
                   else Ok [Some (Tensor e (Some (set_nth sh (Z.to_nat (if (a <? 0)%Z then a + r else a)%Z) DUnk)))]
               | None => Ok [Some (Tensor e (Some [DUnk]))]
               end
      end
  | _, _ => Err EType                                  (* unwrap_tensor of an untyped Var or of a non-tensor *)
  end.

(* ---- Loop (v17.py:1778): carried outputs.  [tin] = types of v_initial (= the types declared for the body's carried
   arguments, v17.py:8989), [tres] = types of the body's carried results. *)

(* the unrepaired patch: the body result's type, written over the first [length tres] entries of ONNX's result *)
Fixpoint overwrite {A} (base new : list A) : list A :=
  match base, new with
  | _ :: b, n :: t => n :: overwrite b t
  | b, [] => b
  | [], _ => []
  end.
Definition loop_carried_orig (tin tres : list ity) : list ity := tres.
(* complete routine: [onnx_out] = super().infer_output_types() in output order, [n] = number of carried values,
   [body_res] = types of all requested body results (condition first) *)
Definition infer_Loop_orig (onnx_out : list ity) (n : nat) (body_res : list ity) : list ity :=
  overwrite onnx_out (firstn n (tl body_res)).

(* the repaired routine (fixes/F18.diff) *)
Definition dim_eqb (a b : dim) : bool :=
  match a, b with
  | DConst x, DConst y => N.eqb x y
  | DNamed x, DNamed y => String.eqb x y
  | DUnk, DUnk => true
  | _, _ => false
  end.
Definition shape_eqb (a b : shape) : bool :=
  match a, b with
  | None, None => true
  | Some x, Some y => (Nat.eqb (List.length x) (List.length y) && forallb (fun p => dim_eqb (fst p) (snd p)) (combine x y))%bool
  | _, _ => false
  end.
Definition ity_eqb (a b : ity) : bool :=
  match a, b with
  | None, None => true
  | Some (Tensor e s), Some (Tensor e' s') => elem_eqb e e' && shape_eqb s s'
  | Some (NonTensor c), Some (NonTensor c') => Bool.eqb c c'       (* opaque in this model: equal only to itself *)
  | _, _ => false
  end.
(* every value conforming to [res] also conforms to [init] *)
Definition dim_keeps (r i : dim) : bool := match i with DConst c => dim_eqb r (DConst c) | _ => true end.
Definition preserved (res init : ity) : bool :=
  match res, init with
  | Some (Tensor er sr), Some (Tensor ei si) =>
      elem_eqb er ei &&
      match si with
      | None => true
      | Some di => match sr with
                   | None => false
                   | Some dr => Nat.eqb (List.length dr) (List.length di) && forallb (fun p => dim_keeps (fst p) (snd p)) (combine dr di)
                   end
      end
  | _, _ => ity_eqb res init
  end.
Definition merge_dim (a b : dim) : dim := if dim_eqb a b then a else DUnk.
Definition merged (res init : ity) : ity :=
  match res, init with
  | Some (Tensor er sr), Some (Tensor _ si) =>
      Some (Tensor er match sr, si with
                      | Some dr, Some di => Some (map (fun p => merge_dim (fst p) (snd p)) (combine dr di))
                      | _, _ => None
                      end)
  | _, _ => res
  end.
Definition weakened (res : ity) : ity :=
  match res with Some (Tensor e _) => Some (Tensor e None) | _ => res end.
Definition loop_carried_fixed (tin tres : list ity) : list ity :=
  let pairs := combine tres tin in
  if forallb (fun p => preserved (fst p) (snd p)) pairs
  then map (fun p => merged (fst p) (snd p)) pairs
  else map (fun p => weakened (fst p)) pairs.
Definition infer_Loop_fixed (onnx_out : list ity) (n : nat) (body_res tin : list ity) : list ity :=
  overwrite onnx_out (loop_carried_fixed tin (firstn n (tl body_res))).

(* the trial merge of DESIGN.md Appendix D (NOT adopted: unsound, see InferFacts.loop_appendixD_refuted) *)
Definition loop_carried_appendixD (tin tres : list ity) : list ity :=
  map (fun p => match fst p, snd p with
                | Some (Tensor er sr), Some (Tensor ei si) =>
                    if elem_eqb er ei && negb (ity_eqb (fst p) (snd p)) then
                      match sr, si with
                      | Some dr, Some di =>
                          if Nat.eqb (List.length dr) (List.length di)
                          then Some (Tensor er (Some (map (fun q => merge_dim (fst q) (snd q)) (combine dr di))))
                          else Some (Tensor er None)
                      | _, _ => Some (Tensor er None)
                      end
                    else fst p
                | _, _ => fst p
                end) (combine tres tin).

(* runtime of the carried values: iteration [i] maps the carried values to the next ones; after [k] trips *)
Fixpoint loop_run (body : nat -> list val -> list val) (k : nat) (v0 : list val) : list val :=
  match k with O => v0 | S k => body k (loop_run body k v0) end.

(* ---- inline (_public.py:245, _inline.py:110) *)
Definition strip_dim (d : dim) : dim := match d with DNamed _ => DUnk | d => d end.
Definition strip_dims (t : ty) : ty :=
  match t with Tensor e (Some ds) => Tensor e (Some (map strip_dim ds)) | t => t end.
(* Shape.__le__ / Natural.__le__ *)
Definition dim_le (a b : dim) : bool :=
  match a, b with
  | DConst x, DConst y => N.eqb x y
  | DConst _, _ => true
  | _, _ => true
  end.
Definition shape_le (a b : shape) : bool :=
  match a, b with
  | Some x, Some y => (Nat.eqb (List.length x) (List.length y) && forallb (fun p => dim_le (fst p) (snd p)) (combine x y))%bool
  | _, _ => true
  end.
(* Type._subtype on tensors; a non-tensor argument is compared by equality (opaque here: never equal to a tensor) *)
Definition subtype (a b : ty) : bool :=
  match a, b with
  | Tensor e s, Tensor e' s' => elem_eqb e e' && shape_le s s'
  | NonTensor c, NonTensor c' => Bool.eqb c c'
  | _, _ => false
  end.
(* [decl_in], [decl_out]: the inlined model's own declared graph input / output types *)
Definition infer_Inline (decl_in decl_out : list ty) (args : list ity) : result (list ity) :=
  if forallb (fun p => match snd p with None => true | Some a => subtype a (strip_dims (fst p)) end) (combine decl_in args)
  then Ok (map (fun t => Some (strip_dims t)) decl_out)
  else Err EType.

(* --------------------------------------------------------------------------------- Part 3: runtime specification *)

Definition numeric4 (e : elem) : bool := match e with F32 | F64 | I64 | I32 => true | _ => false end.
Definition prod (l : list N) : N := fold_right N.mul 1 l.

(* ArrayFeatureExtractor: "Select elements of the input tensor based on the indices passed. The indices are applied
   to the last axes of the tensor." X: T in float,double,int64,int32,string; Y: int64. A vector input yields a
   matrix with one row (reference implementation / onnxruntime). *)
Definition rt_ArrayFeatureExtractor (x y : val) : option (list val) :=
  let '(ex, sx) := x in let '(ey, sy) := y in
  if negb (elem_eqb ey I64) then None else
  if negb (numeric4 ex || elem_eqb ex Str) then None else
  match sx with
  | [] => None
  | [_] => Some [(ex, [1; prod sy])]
  | _ => Some [(ex, removelast sx ++ [prod sy])%list]
  end.

(* Binarizer: "Maps the values of the input tensor to either 0 or 1, element-wise"; Y has the type and shape of X *)
Definition rt_Binarizer (x : val) : option (list val) :=
  if numeric4 (fst x) then Some [x] else None.

(* CategoryMapper: "Converts strings to integers and vice versa"; output "is a tensor of the same shape, with the
   other element type" *)
Definition rt_CategoryMapper (x : val) : option (list val) :=
  match fst x with I64 => Some [(Str, snd x)] | Str => Some [(I64, snd x)] | _ => None end.

(* Imputer: "Replaces inputs that equal one value with another, leaving all other elements alone"; Y: T, same shape *)
Definition rt_Imputer (x : val) : option (list val) :=
  if numeric4 (fst x) then Some [x] else None.

(* LinearRegressor: "Generalized linear regression evaluation. If targets is set to 1 (default) then univariate
   regression is performed. If targets is set to M then M sets of coefficients must be passed in as a sequence and M
   results will be output for each input n in N."  X is [N,C] or [C] (one row); Y: tensor(float) [N, targets]. *)
Definition rt_LinearRegressor (targets : N) (x : val) : option (list val) :=
  if negb (numeric4 (fst x)) then None else
  match snd x with
  | [_] => Some [(F32, [1; targets])]
  | [n; _] => Some [(F32, [n; targets])]
  | _ => None
  end.

(* Normalizer: "Normalize the input ... For batches, that is, [N,C] tensors, normalization is done along the C axis";
   X: float,double,int64,int32 ([N,C] or [C]); Y: tensor(float), "Encoded output data", same shape *)
Definition rt_Normalizer (x : val) : option (list val) :=
  if negb (numeric4 (fst x)) then None else
  match snd x with
  | [_] | [_; _] => Some [(F32, snd x)]
  | _ => None
  end.

(* OneHotEncoder: "Replace each input element with an array of ones and zeros, where a single one is placed at the
   index of the category that was passed in. The total category count will determine the size of the extra dimension
   of the output array Y."  One and only one of the cats_* attributes is defined.  Y: tensor(float). *)
Definition rt_OneHotEncoder (cats_int64s cats_strings : option N) (x : val) : option (list val) :=
  if negb (numeric4 (fst x) || elem_eqb (fst x) Str) then None else
  match cats_int64s, cats_strings with
  | Some n, None | None, Some n => Some [(F32, snd x ++ [n])%list]
  | _, _ => None
  end.

(* Scaler: "Rescale input data, for example to standardize features by removing the mean and scaling to unit
   variance."  X: float,double,int64,int32; Y: tensor(float), "Scaled output data", same shape *)
Definition rt_Scaler (x : val) : option (list val) :=
  if numeric4 (fst x) then Some [(F32, snd x)] else None.

(* TreeEnsembleClassifier: "Returns the top class for each of N inputs."  X [N,F] (a vector is one row);
   Y: "N, Top class for each point" (string or int64 labels), Z: "The class score for each class, for each point, a
   tensor of shape [N,E]", E = number of class labels ("The class_ids are indices into this list"). *)
Definition rt_TreeEnsembleClassifier (classlabels_int64s classlabels_strings : option N) (x : val) : option (list val) :=
  if negb (numeric4 (fst x)) then None else
  match (match snd x with [n; _] => Some n | [_] => Some 1 | _ => None end) with
  | None => None
  | Some n =>
      match classlabels_strings, classlabels_int64s with
      | Some e, _ => Some [(Str, [n]); (F32, [n; e])]
      | None, Some e => Some [(I64, [n]); (F32, [n; e])]
      | None, None => None
      end
  end.

(* TreeEnsembleRegressor: Y: tensor(float), "N classes" = [N, n_targets] *)
Definition rt_TreeEnsembleRegressor (n_targets : option N) (x : val) : option (list val) :=
  if negb (numeric4 (fst x)) then None else
  match (match snd x with [n; _] => Some n | [_] => Some 1 | _ => None end), n_targets with
  | Some n, Some e => Some [(F32, [n; e])]
  | _, _ => None
  end.

(* Compress: "Selects slices from an input tensor along a given axis where condition evaluates to True for each axis
   index. In case axis is not provided, input is flattened before elements are selected."  [k] = the (value
   dependent) number of selected slices. *)
Definition rt_Compress (axis : option Z) (k : N) (inp cond : val) : option (list val) :=
  if negb (elem_eqb (fst cond) Bool_) then None else
  match axis with
  | None => Some [(fst inp, [k])]
  | Some a =>
      let r := Z.of_nat (List.length (snd inp)) in
      if ((- r <=? a) && (a <? r))%Z
      then Some [(fst inp, set_nth (snd inp) (Z.to_nat (if (a <? 0)%Z then a + r else a)%Z) k)]
      else None
  end.

(* ------------------------------------------------------------------------------------- printing for the harness *)
Definition elem_code (e : elem) : N :=
  match e with F32 => 0 | F64 => 1 | F16 => 2 | I64 => 3 | I32 => 4 | I8 => 5 | U8 => 6 | Str => 7 | Bool_ => 8 end.
