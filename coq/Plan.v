(* Plan.v — instantiation of Sem.v with a reflected program, and the plan obtained by erasing the names of an emitted model.
   Executable; the check [check_plan] is one of the model's validators (Validate.v).  No proofs here. *)
From Coq Require Import List String Arith Bool.
From Spox Require Import Base IR Show Build Sem.
Import ListNotations.

Section Inst.
Variable p : prog.
Variable main : nat.   (* the graph whose build is considered: 0 = the public request; a function's body graph otherwise *)

Definition topoP : list nref := postorder (2 * fuel_of p) (full_adj p) (NIntro main).
Definition inR (u : nref) : bool := mem nref_eqb u topoP.
(* accessors, restricted to the part of the program reachable from the requested results *)
Definition insP (u : nref) : list (option var) :=
  if inR u then match u with
                | NReal n => ins (getn p n)
                | NIntro g => map (fun kv => Some (snd kv)) (gres (getg p g)) end
  else [].
Definition subsP (u : nref) : list nat := if inR u then map snd (subs_of p u) else [].
Definition gargsP (g : nat) : list var := match gargs (getg p g) with Some l => l | None => [] end.
(* the results of a graph are the outputs of its result identity (whose inputs are the requested result Vars) *)
Definition gresP (g : nat) : list var := map (V (NIntro g)) (seq 0 (List.length (gres (getg p g)))).
Definition greqP (g : nat) : list var := map snd (gres (getg p g)).      (* the requested result Vars themselves *)
Definition noutsP (u : nref) : nat := List.length (node_outs p u).
Definition is_argP (u : nref) : bool := is_arg p u.

Fixpoint index_of (u : nref) (l : list nref) : nat :=
  match l with [] => 0 | x :: t => if nref_eqb u x then 0 else S (index_of u t) end.
Definition rankP (u : nref) : nat := index_of u topoP.       (* = length topoP for nodes outside *)

(* every input and every subgraph result of a reachable node comes strictly earlier in the global postorder *)
Definition acyclic_b : bool :=
  forallb (fun u =>
    is_argP u ||
    (forallb (fun ox => match ox with Some x => Nat.ltb (rankP (vnode x)) (rankP u) | None => true end) (insP u) &&
     forallb (fun g => forallb (fun r => Nat.ltb (rankP (vnode r)) (rankP u)) (gresP g)) (subsP u))) topoP.

(* the emitted model with names erased: which source node sits in which graph, in which order *)
Definition sub_id (u : nref) (k : string) : nat :=
  match lookup String.eqb k (subs_of p u) with Some g => g | None => 0 end.
Fixpoint plan_of_node (n : mnode) : nref * list plan :=
  match n with
  | MNode _ _ _ u _ _ al =>
      (u, (fix go (l : list (string * option mgraph)) : list plan :=
             match l with
             | [] => []
             | (k, Some g) :: t => plan_of_graph (sub_id u k) g :: go t
             | (_, None) :: t => go t
             end) al)
  | MInit _ u => (u, [])
  | MIntro _ u _ _ => (u, [])
  | MInline _ u _ _ _ => (u, [])
  end
with plan_of_graph (gid : nat) (g : mgraph) : plan :=
  match g with MGraph _ b _ =>
    PGraph gid ((fix go (l : list mnode) : list (nref * list plan) :=
                   match l with [] => [] | n :: t => plan_of_node n :: go t end) b) end.

Definition check_plan (g : mgraph) : bool :=
  acyclic_b && inR (NIntro main) && wf_b is_argP insP subsP gargsP gresP noutsP (plan_of_graph main g) [] [].

(* operator semantics: arbitrary for user nodes (by node index), identity for the per-graph result identities *)
Section OpSem.
Variable val : Type.
Variable dv : val.
Variable opsem : nat -> list (option val) -> list (clos val) -> list val.
Definition opsemP (u : nref) (ivs : list (option val)) (cl : list (clos val)) : list val :=
  match u with
  | NReal n => opsem n ivs cl
  | NIntro _ => map (fun ov => match ov with Some v => v | None => dv end) ivs
  end.
(* meaning of a Var of the program under a binding of the main arguments *)
Definition meaning (rho : venv val) (v : var) : val :=
  eval val dv is_argP insP subsP gargsP gresP opsemP (S (rankP (vnode v))) rho v.
Definition run_plan (pl : plan) (av : list val) : list val :=
  run_graph val dv insP gargsP gresP noutsP opsemP pl [] av.
End OpSem.
End Inst.
