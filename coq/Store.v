(* Store.v — the Var store as far as build() touches it (src/spox/_public.py _temporary_renames): Var._name of every Var.
   build saves the current name of each input Var (first save wins), renames it to the requested input name, runs the
   builder (which renames only its own fresh result-identity Vars), and restores the saved names on every outcome.
   [save_set_overwrite] is the pinned tree's variant (pre[arg] = arg._name overwrites an earlier save).  No proofs here. *)
From Coq Require Import List String Bool.
From Spox Require Import Base IR.
Import ListNotations.

Definition store := var -> option string.
Definition upd (s : store) (v : var) (n : option string) : store := fun x => if var_eqb x v then n else s x.

Fixpoint save_set (pre : list (var * option string)) (s : store) (inputs : list (string * var)) : list (var * option string) * store :=
  match inputs with
  | [] => (pre, s)
  | (name, v) :: t =>
      let pre' := if mem var_eqb v (map fst pre) then pre else (pre ++ [(v, s v)])%list in      (* pre.setdefault(arg, arg._name) *)
      save_set pre' (upd s v (Some name)) t
  end.
Fixpoint save_set_overwrite (pre : list (var * option string)) (s : store) (inputs : list (string * var)) : list (var * option string) * store :=
  match inputs with
  | [] => (pre, s)
  | (name, v) :: t => save_set_overwrite (set_assoc var_eqb v (s v) pre) (upd s v (Some name)) t    (* pre[arg] = arg._name *)
  end.
Definition restore (pre : list (var * option string)) (s : store) : store :=
  fold_left (fun s kv => upd s (fst kv) (snd kv)) pre s.

(* the build proper may raise or not, and may rename any Var that is NOT in the caller's store domain (its own fresh identities) *)
Definition with_renames (body : store -> store) (s : store) (inputs : list (string * var)) : store :=
  let '(pre, s1) := save_set [] s inputs in restore pre (body s1).
Definition with_renames_overwrite (body : store -> store) (s : store) (inputs : list (string * var)) : store :=
  let '(pre, s1) := save_set_overwrite [] s inputs in restore pre (body s1).
