(* FunDefFacts.v — every function called anywhere in the model has a definition, BY CONSTRUCTION (no validator): the loop step that
   emits a call node (at any nesting depth) also records the function in the list from which Graph.to_onnx_model builds the
   FunctionProtos (own nodes: fs; nodes of control-flow bodies: sfs, appended after), and FuncFacts.to_model_functions keeps a
   definition with that key.  (C14; the seeded changes C14-D / C14-G dropped exactly the functions of bodies.) *)
From Coq Require Import List String NArith Arith Bool Lia.
From Spox Require Import Base IR Show Build Sem Plan Named Validate BuildFacts CompilePres ScopeFacts EmitFacts FuncFacts.
Import ListNotations.
Open Scope list_scope.

Section FunDef.
Variables (p : prog) (un : names) (args_of : nat -> list var) (own_of : nat -> list nref)
          (fbuild : nat -> nat -> res (list mnode * req * list fdesc)).

Definition is_func (u : nref) : Prop := exists n body fi fo fa, u = NReal n /\ kind (getn p n) = KFunc body fi fo fa.
Definition recorded (fl : list fdesc) (u : nref) : Prop :=
  exists f, In f fl /\ (NReal (fd_node f) = u /\ fd_domain f = domain (getn p (fd_node f)) /\ fd_name f = ident (getn p (fd_node f))).
(* every function-call node among [srcs] is recorded in [fl] *)
Definition Covered (srcs : list nref) (fl : list fdesc) : Prop := forall u, In u srcs -> is_func u -> recorded fl u.

Lemma Covered_app s1 s2 f1 f2 : Covered s1 f1 -> Covered s2 f2 -> Covered (s1 ++ s2) (f1 ++ f2).
Proof. intros H1 H2 u Hu Hf. apply in_app_or in Hu. destruct Hu as [Hu|Hu].
  - destruct (H1 u Hu Hf) as [f [Hin E]]. exists f. split; [apply in_or_app; now left|exact E].
  - destruct (H2 u Hu Hf) as [f [Hin E]]. exists f. split; [apply in_or_app; now right|exact E]. Qed.
Lemma Covered_mono s f1 f2 : (forall x, In x f1 -> In x f2) -> Covered s f1 -> Covered s f2.
Proof. intros Hi H u Hu Hf. destruct (H u Hu Hf) as [f [Hin E]]. exists f. auto. Qed.
Lemma Covered_nil f : Covered [] f. Proof. intros u []. Qed.

Definition accF (acc : list mnode * scope * req * list fdesc * list fdesc) : Prop :=
  let '(ms, s, rq, fs, sfs) := acc in Covered (flat_map srcs_node ms) (fs ++ sfs).

Section Step.
Variable rec : scope -> nat -> String.string -> option bool -> res (mgraph * scope * req * list fdesc).
Hypothesis Hrec : forall s g pre vi mg s' rq fs, rec s g pre vi = inl (mg, s', rq, fs) -> Covered (srcs_graph mg) fs.

Lemma attr_fold_F nm : forall l l0 sa rqa fsa al sz rqz fz,
  foldM (fun (acc : list (String.string * option mgraph) * scope * req * list fdesc) (ka : String.string * attrv) =>
           let '(l, s, rq, fs) := acc in
           match snd ka with
           | AVal _ => ret ((l ++ [(fst ka, None)])%list, s, rq, fs)
           | AGraph sub =>
             do r <- rec s sub (nm ++ "_" ++ fst ka ++ "__")%string (Some false) ;;
             let '(mg, s', rq', fs') := r in
             ret ((l ++ [(fst ka, Some mg)])%list, s', union req_eqb rq rq', (fs ++ fs')%list)
           end) l (l0, sa, rqa, fsa) = inl (al, sz, rqz, fz) ->
  exists news extra, al_srcs al = al_srcs l0 ++ news /\ fz = fsa ++ extra /\ Covered news extra.
Proof. induction l as [|ka t IH]; intros l0 sa rqa fsa al sz rqz fz H; cbn [foldM] in H.
  - inversion H; subst. exists [], []. rewrite !app_nil_r. split; [reflexivity|]. split; [reflexivity|apply Covered_nil].
  - apply bind_ok in H. destruct H as [[[[l1 s1] rq1] fs1] [Hk H]]. destruct (IH _ _ _ _ _ _ _ _ H) as (news & extra & E1 & E2 & Hc).
    destruct (snd ka) as [sub|x].
    + apply bind_ok in Hk. destruct Hk as [[[[mg0 sb] rqb] fsb] [Hcmp Hk]]. inversion Hk; subst.
      exists (srcs_graph mg0 ++ news), (fsb ++ extra). rewrite E1, al_srcs_app. unfold al_srcs at 2. cbn. rewrite app_nil_r, <- !app_assoc.
      split; [reflexivity|]. split; [reflexivity|]. apply Covered_app; [eapply Hrec; exact Hcmp|exact Hc].
    + inversion Hk; subst. exists news, extra. rewrite E1, al_srcs_app. unfold al_srcs at 2. cbn. rewrite app_nil_r. auto. Qed.

Lemma Covered_one_nonfunc n0 fl : (forall body fi fo fa, kind (getn p n0) <> KFunc body fi fo fa) -> Covered [NReal n0] fl.
Proof. intros Hk v [E|[]] (n1 & body & fi & fo & fa & E1 & Hk1). subst v. inversion E1; subst. exfalso. eapply Hk; eauto. Qed.
Lemma Covered_intro g fl : Covered [NIntro g] fl.
Proof. intros v [E|[]] (n1 & body & fi & fo & fa & E1 & _). subst v. discriminate. Qed.

Lemma step_F prefix acc u acc' : compile_step p un fbuild rec prefix acc u = inl acc' -> accF acc -> accF acc'.
Proof.
  destruct acc as [[[[ms s] rq] fs] sfs]. destruct acc' as [[[[ms' s'] rq'] fs'] sfs']. intros Hu Hc. unfold accF in *. unfold compile_step in Hu.
  destruct (is_arg p u) eqn:Ea; [inversion Hu; subst; exact Hc|].
  destruct u as [n|g'].
  - apply bind_ok in Hu. destruct Hu as [[rqm fsm] [Hmeta Hu]].
    apply bind_ok in Hu. destruct Hu as [s2 [_ Hu]].
    destruct (kind (getn p n)) as [| | |om imp|body fi fo fa] eqn:Hk.
    + inversion Hu; subst. exact Hc.
    + apply bind_ok in Hu. destruct Hu as [o [_ Hu]]. inversion Hu; subst. inversion Hmeta; subst. rewrite srcs_body_app. cbn [flat_map srcs_node]. rewrite app_nil_r.
      replace (fs' ++ sfs') with ((fs' ++ sfs') ++ []) by apply app_nil_r. apply Covered_app; [exact Hc|]. apply Covered_one_nonfunc. intros; rewrite Hk; discriminate.
    + apply bind_ok in Hu. destruct Hu as [nm [_ Hu]]. apply bind_ok in Hu. destruct Hu as [inn [_ Hu]].
      apply bind_ok in Hu. destruct Hu as [outn [_ Hu]]. apply bind_ok in Hu. destruct Hu as [[[[al s3] rq3] sfs3] [Hsg Hu]].
      inversion Hu; subst. inversion Hmeta; subst. rewrite srcs_body_app. cbn [flat_map srcs_node]. rewrite app_nil_r. fold (al_srcs al).
      destruct (attr_fold_F _ _ _ _ _ _ _ _ _ _ Hsg) as (news & extra & E1 & E2 & Hcn). unfold al_srcs at 2 in E1. cbn [flat_map app] in E1. rewrite E1, E2.
      rewrite app_assoc. apply Covered_app; [exact Hc|].
      change (NReal n :: news) with ([NReal n] ++ news). replace extra with ([] ++ extra) by reflexivity. apply Covered_app; [|exact Hcn].
      apply Covered_one_nonfunc. intros; rewrite Hk; discriminate.
    + apply bind_ok in Hu. destruct Hu as [nm [_ Hu]]. destruct om as [gi gin body go_ vi].
      apply bind_ok in Hu. destruct Hu as [[ri sri] [_ Hu]]. apply bind_ok in Hu. destruct Hu as [[rb srb] [_ Hu]].
      apply bind_ok in Hu. destruct Hu as [[ro sro] [_ Hu]]. apply bind_ok in Hu. destruct Hu as [[rvi srvi] [_ Hu]].
      apply bind_ok in Hu. destruct Hu as [ids [_ Hu]]. apply bind_ok in Hu. destruct Hu as [inn [_ Hu]].
      apply bind_ok in Hu. destruct Hu as [outn [_ Hu]]. inversion Hu; subst. inversion Hmeta; subst. rewrite srcs_body_app. cbn [flat_map srcs_node]. rewrite app_nil_r.
      replace (fs' ++ sfs') with ((fs' ++ sfs') ++ []) by apply app_nil_r. apply Covered_app; [exact Hc|]. apply Covered_one_nonfunc. intros; rewrite Hk; discriminate.
    + apply bind_ok in Hmeta. destruct Hmeta as [[[bn brq] bfs] [_ Hmeta]]. inversion Hmeta; subst.
      apply bind_ok in Hu. destruct Hu as [nm [_ Hu]]. apply bind_ok in Hu. destruct Hu as [inn [_ Hu]].
      apply bind_ok in Hu. destruct Hu as [outn [_ Hu]]. apply bind_ok in Hu. destruct Hu as [[[[al s3] rq3] sfs3] [Hsg Hu]].
      inversion Hu; subst. rewrite srcs_body_app. cbn [flat_map srcs_node]. rewrite app_nil_r. fold (al_srcs al).
      destruct (attr_fold_F _ _ _ _ _ _ _ _ _ _ Hsg) as (news & extra & E1 & E2 & Hcn). unfold al_srcs at 2 in E1. cbn [flat_map app] in E1. rewrite E1, E2.
      intros v Hv Hf. apply in_app_or in Hv. destruct Hv as [Hv|[<-|Hv]].
      * destruct (Hc v Hv Hf) as [f0 [Hin E]]. exists f0. split; [|exact E]. apply in_app_or in Hin. apply in_or_app.
        destruct Hin as [Hin|Hin]; [left; apply in_or_app; now left|right; apply in_or_app; now left].
      * eexists. split; [apply in_or_app; left; apply in_or_app; right; left; reflexivity|cbn; auto].
      * destruct (Hcn v Hv Hf) as [f0 [Hin E]]. exists f0. split; [apply in_or_app; right; apply in_or_app; now right|exact E].
  - apply bind_ok in Hu. destruct Hu as [s2 [_ Hu]].
    apply bind_ok in Hu. destruct Hu as [nm [_ Hu]]. apply bind_ok in Hu. destruct Hu as [i [_ Hu]].
    apply bind_ok in Hu. destruct Hu as [o [_ Hu]]. inversion Hu; subst. rewrite srcs_body_app. cbn [flat_map srcs_node]. rewrite app_nil_r.
    replace (fs' ++ sfs') with ((fs' ++ sfs') ++ []) by apply app_nil_r. apply Covered_app; [exact Hc|]. apply Covered_intro.
Qed.
End Step.

(* every function-call node emitted anywhere in the graph tree of a compile is recorded in the function list it returns *)
Theorem compile_functions_recorded : forall fuel s g prefix vi mg s' rq fs,
  compile p un args_of own_of fbuild fuel s g prefix vi = inl (mg, s', rq, fs) -> Covered (srcs_graph mg) fs.
Proof.
  induction fuel as [|f IH]; intros s g prefix vi mg s' rq fs H; [discriminate H|]. cbn [Build.compile] in H.
  apply bind_ok in H. destruct H as [s1 [_ H]]. apply bind_ok in H. destruct H as [[[[[ms s3] rq3] fs0] sfs] [H2 H]].
  assert (Hc : accF (ms, s3, rq3, fs0, sfs)).
  { assert (Hi : accF ([], s1, [], [], [])) by apply Covered_nil. revert H2 Hi. apply (CompilePres.foldM_inv accF).
    intros acc u acc' Hs. eapply step_F; [|exact Hs]. exact IH. }
  destruct (Nat.eqb (List.length (gres (getg p g))) 0); [discriminate H|].
  apply bind_ok in H. destruct H as [ai [_ H]]. apply bind_ok in H. destruct H as [ro [_ H]]. inversion H; subst. exact Hc.
Qed.
End FunDef.

(* ---------- Builder.build_main (functions build their bodies with their own Builder) and Graph.to_onnx_model ---------- *)
Theorem build_main_functions_recorded : forall ffuel vi p un main b,
  build_main_gen vi ffuel p un main = inl b -> Covered p (srcs_graph (b_graph b)) (b_funs b).
Proof. intros [|ff] vi p un main b H; [discriminate|]. cbn [build_main_gen] in H.
  apply bind_ok in H. destruct H as [d [_ H]]. apply bind_ok in H. destruct H as [[[[mg s] rq] fs] [Hc H]].
  inversion H; subst. cbn [b_graph b_funs]. eapply compile_functions_recorded; exact Hc. Qed.

(* every function-call node of the returned model's graph tree has a FunctionProto of its (domain, name) *)
Theorem build_public_calls_defined p r m inputs outputs :
  build_public p r = inl m -> all_vars (r_inputs r) = Some inputs -> all_vars (r_outputs r) = Some outputs ->
  exists args, forall n body fi fo fa, In (NReal n) (srcs_graph (mmain m)) ->
    kind (getn (with_main p (Some args) outputs) n) = KFunc body fi fo fa ->
    exists d, In d (mfunctions m) /\ f_domain d = domain (getn p n) /\ f_name d = ident (getn p n).
Proof.
  unfold build_public. intros H Hi Ho. rewrite Hi, Ho in H.
  destruct (negb _); [discriminate|]. destruct outputs as [|o os]; [discriminate|].
  apply bind_ok in H. destruct H as [args [_ H]]. apply bind_ok in H. destruct H as [b [Hb H]].
  apply bind_ok in H. destruct H as [m' [Hm H]]. pose proof (to_model_struct _ _ Hm) as (_ & Hmg & _).
  destruct (mmain m') as [gi body0 go_] eqn:Eg. destruct (forallb _ gi); [|discriminate]. inversion H; subst m'.
  exists args. intros n body fi fo fa Hin Hk. rewrite Eg, Hmg in Hin. unfold build_main in Hb.
  pose proof (build_main_functions_recorded _ _ _ _ _ _ Hb (NReal n) Hin) as Hr.
  destruct Hr as [f [Hf (E & Ed & En)]]; [exists n, body, fi, fo, fa; auto|]. inversion E; subst n.
  destruct (to_model_functions _ _ Hm) as [_ Hall]. destruct (Hall f Hf) as (d & Hd & Hkd & _).
  exists d. split; [exact Hd|]. unfold fkey in Hkd. cbn [function_proto f_domain f_name] in Hkd. inversion Hkd as [[E1 E2]].
  rewrite E1, E2, Ed, En. cbn [with_main getn nodes]. auto.
Qed.
