(* Show.v — canonical rendering of the emitted model; harness/buildlib.py renders the real ModelProto the same way. *)
From Coq Require Import List String NArith Arith Bool.
From Spox Require Import Base IR.
Import ListNotations.
Open Scope string_scope.

Definition show_io (l : list (string * string)) : string := join "," (map (fun kv => fst kv ++ ":" ++ snd kv) l).

Fixpoint show_node (n : mnode) : list string :=
  match n with
  | MNode name op dom _ i o al =>
      ["(" ++ name ++ " " ++ dom ++ ":" ++ op ++ " [" ++ join "," i ++ "] [" ++ join "," o ++ "] {" ++
       join ";" (map (fun ka => match snd ka with Some g => fst ka ++ "=" ++ show_graph g | None => fst ka end) al) ++ "})"]
  | MInit _ _ => []
  | MIntro name _ i o =>
      map (fun k => "(" ++ name ++ "_id" ++ decn k ++ " :Identity [" ++ nth k i "?" ++ "] [" ++ nth k o "?" ++ "] {})")
          (seqn 0 (List.length i))
  | MRaw name op dom _ i o sl =>
      ["(" ++ name ++ " " ++ dom ++ ":" ++ op ++ " [" ++ join "," i ++ "] [" ++ join "," o ++ "] {" ++
       join ";" (map (fun ks => fst ks ++ "=" ++ show_raw (snd ks)) sl) ++ "})"]
  end
with show_graph (g : mgraph) : string :=
  match g with MGraph i b o =>
    "<[" ++ show_io i ++ "] [" ++ join "," (flat_map (fun n => match n with MInit nm _ => [nm] | _ => [] end) b) ++ "] " ++
    join " " (flat_map show_node b) ++ " [" ++ show_io o ++ "]>" end
with show_raw (g : mraw) : string :=
  match g with MRawGraph i b o =>
    "<[" ++ join "," i ++ "] [] " ++ join " " (flat_map show_node b) ++ " [" ++ join "," o ++ "]>" end.

Definition show_imports (l : list (string * nat)) : string :=
  "{" ++ join "," (map (fun dv => fst dv ++ "=" ++ decn (snd dv)) l) ++ "}".

Definition show_model (m : model) : string :=
  show_imports (mimports m) ++ " " ++ show_graph (mmain m) ++
  concat "" (map (fun f => match f with (d, n, g, imps) => " FUNC " ++ d ++ ":" ++ n ++ " " ++ show_imports imps ++ " " ++ show_graph g end)
                 (mfunctions m)).

Definition show (r : res model) : string := match r with inl m => show_model m | inr e => show_err e end.
