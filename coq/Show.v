(* Show.v — canonical rendering of the emitted model; harness/buildlib.py renders the real ModelProto the same way. *)
From Coq Require Import List String NArith Arith Bool.
From Spox Require Import Base IR.
Import ListNotations.
Open Scope string_scope.

Definition show_io (l : list (string * string)) : string := join "," (map (fun kv => fst kv ++ ":" ++ snd kv) l).

Fixpoint show_raw (n : mraw) : string :=
  match n with MRaw name op dom i o sl =>
    "(" ++ name ++ " " ++ dom ++ ":" ++ op ++ " [" ++ join "," i ++ "] [" ++ join "," o ++ "] {" ++
    join ";" (map (fun ks => match snd ks with Some g => fst ks ++ "=" ++ show_rawgraph g | None => fst ks end) sl) ++ "})" end
with show_rawgraph (g : mrawgraph) : string :=
  match g with MRawGraph i ini b o =>
    "<[" ++ join "," i ++ "] [" ++ join "," ini ++ "] " ++ join " " (map show_raw b) ++ " [" ++ join "," o ++ "]>" end.

Definition show_names (l : list (string * string)) : string := join "," (map fst l).

Fixpoint show_node (n : mnode) : list string :=
  match n with
  | MNode name op dom _ i o al =>
      ["(" ++ name ++ " " ++ dom ++ ":" ++ op ++ " [" ++ join "," i ++ "] [" ++ join "," o ++ "] {" ++
       join ";" (map (fun ka => match snd ka with Some g => fst ka ++ "=" ++ show_graph g | None => fst ka end) al) ++ "})"]
  | MInit _ _ => []
  | MIntro name _ i o =>
      map (fun k => "(" ++ name ++ "_id" ++ decn k ++ " :Identity [" ++ nth k i "?" ++ "] [" ++ nth k o "?" ++ "] {})")
          (seqn 0 (List.length i))
  | MInline _ _ _ _ body => map show_raw body
  end
with show_graph (g : mgraph) : string :=       (* nested graphs: names only *)
  match g with MGraph i b o =>
    "<[" ++ show_names i ++ "] [" ++ join "," (flat_map (fun n => match n with MInit nm _ => [nm] | _ => [] end) b) ++ "] " ++
    join " " (flat_map show_node b) ++ " [" ++ show_names o ++ "]>" end.
Definition show_main (g : mgraph) : string :=         (* main graph: names and types of inputs / outputs *)
  match g with MGraph i b o =>
    "<[" ++ show_io i ++ "] [" ++ join "," (flat_map (fun n => match n with MInit nm _ => [nm] | _ => [] end) b) ++ "] " ++
    join " " (flat_map show_node b) ++ " [" ++ show_io o ++ "]>" end.

Definition show_imports (l : list (string * nat)) : string :=
  "{" ++ join "," (map (fun dv => fst dv ++ "=" ++ decn (snd dv)) l) ++ "}".

Definition show_function (f : mfunction) : string :=
  " FUNC " ++ f_domain f ++ ":" ++ f_name f ++ " " ++ show_imports (f_imports f) ++ " <[" ++ join "," (f_inputs f) ++ "] [" ++
  join "," (f_attrs f) ++ "] " ++ join " " (flat_map show_node (f_body f)) ++ " [" ++ join "," (f_outputs f) ++ "]>".

Definition show_model (m : model) : string :=
  show_imports (mimports m) ++ " " ++ show_main (mmain m) ++ concat "" (map show_function (mfunctions m)).

Definition show (r : res model) : string := match r with inl m => show_model m | inr e => show_err e end.
