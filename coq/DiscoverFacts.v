(* DiscoverFacts.v — what Builder.discover establishes, for every program on which it succeeds (acyclic object graph, witnessed by
   any rank function): the list of discovered graphs has no duplicates; every subgraph attribute met while traversing a discovered
   graph D belongs to a graph that was discovered, is owned by exactly the node that carries it, and was FINISHED BEFORE D
   (so that, parents first, every graph is processed after all graphs whose traversal contains its owner); every discovered graph but
   the root was met through such an attribute; and every discovered graph is reachable from the root's result node.
   No validator involved.  Used by CoverageFacts. *)
From Coq Require Import List String NArith Arith Bool Lia.
From Spox Require Import Base IR Show Build DfsFacts ReachFacts BuildFacts.
Import ListNotations.
Open Scope list_scope.

Lemma foldM_prefix {A S} (f : S -> A -> res S) (P : list A -> S -> Prop) :
  forall l done s s', P done s ->
    (forall d a s1 s2, (exists rest, done ++ l = d ++ a :: rest) -> P d s1 -> f s1 a = inl s2 -> P (d ++ [a]) s2) ->
    foldM f l s = inl s' -> P (done ++ l) s'.
Proof.
  induction l as [|a t IH]; intros done s s' HP Hstep H; cbn [foldM] in H.
  - inversion H; subst. now rewrite app_nil_r.
  - apply bind_ok in H. destruct H as [s1 [H1 H2]].
    replace (done ++ a :: t) with ((done ++ [a]) ++ t) by (rewrite <- app_assoc; reflexivity).
    apply (IH (done ++ [a]) s1 s'); [|intros d b x y [rest E]; apply Hstep; exists rest; rewrite <- E, <- app_assoc; reflexivity|exact H2].
    apply (Hstep done a s s1); [exists t; reflexivity|exact HP|exact H1].
Qed.

Lemma lookup_cons_nat {B} k h (v : B) l : lookup Nat.eqb k ((h, v) :: l) = if Nat.eqb k h then Some v else lookup Nat.eqb k l.
Proof. unfold lookup. cbn [find fst]. destruct (Nat.eqb k h); reflexivity. Qed.

Definition before (l : list nat) (a b : nat) : Prop := exists l1 l2 l3, l = l1 ++ a :: l2 ++ b :: l3.
Lemma before_app l new a b : before l a b -> before (l ++ new) a b.
Proof. intros [l1 [l2 [l3 E]]]. exists l1, l2, (l3 ++ new). rewrite E. rewrite <- !app_assoc. cbn. rewrite <- !app_assoc. reflexivity. Qed.
Lemma before_snoc l a b : In a l -> before (l ++ [b]) a b.
Proof. intros H. apply in_split in H. destruct H as [l1 [l2 E]]. exists l1, l2, []. rewrite E. rewrite <- app_assoc. reflexivity. Qed.
Lemma before_In_l l a b : before l a b -> In a l.
Proof. intros [l1 [l2 [l3 E]]]. rewrite E. apply in_or_app. right. now left. Qed.
Lemma before_In_r l a b : before l a b -> In b l.
Proof. intros [l1 [l2 [l3 E]]]. rewrite E. apply in_or_app. right. right. apply in_or_app. right. now left. Qed.

(* the two loops of discover, named (Build.discover is convertible to this, see discover_unfold) *)
Definition dacc := (dstate * list var * list var * list var)%type.
Definition stof (acc : dacc) : dstate := fst (fst (fst acc)).

Section Discover.
Variable p : prog.

Definition inner_step (f : nat) (nd : nref) (acc : dacc) (kg : string * nat) : res dacc :=
  let '(st, all, claimed, used) := acc in
  do st' <- discover f p st (snd kg) ;;
  let all' := union var_eqb all (getl (snd kg) (d_all st')) in
  let claimed' := union var_eqb claimed (getl (snd kg) (d_claimed st')) in
  match lookup Nat.eqb (snd kg) (d_own st') with
  | None => ret ({| d_vis := d_vis st'; d_post := d_post st'; d_own := ((snd kg, nd) :: d_own st')%list;
                    d_all := d_all st'; d_claimed := d_claimed st'; d_args := d_args st' |}, all', claimed', used)
  | Some o => if nref_eqb o nd then ret (st', all', claimed', used) else raise EBuild
  end.
Definition outer_step (f : nat) (acc : dacc) (nd : nref) : res dacc :=
  let '(st, all, claimed, used) := acc in
  let '(all, used) := if is_arg p nd then (add_set var_eqb (argvar nd) all, add_set var_eqb (argvar nd) used)
                      else (all, used) in
  foldM (inner_step f nd) (subs_of p nd) (st, all, claimed, used).

Definition trav (g : nat) : list nref := postorder (fuel_of p) (deps p) (NIntro g).

Lemma discover_unfold f st g : discover (S f) p st g =
    if Base.mem Nat.eqb g (d_vis st) then ret st else
    if match gres (getg p g) with [] => true | _ => false end then raise EBuild else
    let st0 := {| d_vis := g :: d_vis st; d_post := d_post st; d_own := d_own st; d_all := d_all st;
                  d_claimed := d_claimed st; d_args := d_args st |} in
    do r <- foldM (outer_step f) (trav g) (st0, [], [], []) ;;
    let '(st1, all, claimed, used) := r in
    let '(all, args) := match gargs (getg p g) with
                        | None => (all, diff var_eqb all claimed)
                        | Some l => (union var_eqb all l, l) end in
    if match inter var_eqb args claimed with [] => false | _ => true end then raise EBuild else
    if match inter var_eqb claimed used with [] => false | _ => true end then raise EBuild else
    let claimed := union var_eqb claimed args in
    ret {| d_vis := d_vis st1; d_post := (d_post st1 ++ [g])%list; d_own := d_own st1;
           d_all := (g, all) :: d_all st1; d_claimed := (g, claimed) :: d_claimed st1; d_args := (g, args) :: d_args st1 |}.
Proof. reflexivity. Qed.

Variable rank : nref -> nat.
Hypothesis Hrank : forall u v, In v (full_adj p u) -> rank v < rank u.
Variable root : nat.

Lemma trav_reach g x : In x (trav g) -> reach (full_adj p) (NIntro g) x.
Proof. intros H. apply reach_deps_full. eapply postorder_sound. exact H. Qed.
Lemma trav_rank g x : In x (trav g) -> rank x <= rank (NIntro g).
Proof. intros H. apply (reach_rank _ (full_adj p) rank Hrank). now apply trav_reach. Qed.

Definition gray (st : dstate) (x : nat) : Prop := In x (d_vis st) /\ ~ In x (d_post st).
Definition Owned (st : dstate) (D : nat) : Prop :=
  forall x k h, In x (trav D) -> In (k, h) (subs_of p x) -> lookup Nat.eqb h (d_own st) = Some x /\ before (d_post st) h D.
Definition Just (vis : list nat) (h : nat) : Prop := exists D x k, In D vis /\ In x (trav D) /\ In (k, h) (subs_of p x).

Record Inv (st : dstate) : Prop := {
  i_nodup : NoDup (d_post st);
  i_sub : forall x, In x (d_post st) -> In x (d_vis st);
  i_owned : forall D, In D (d_post st) -> Owned st D;
  i_just : forall h, In h (d_vis st) -> h = root \/ Just (d_vis st) h;
  i_reach : forall h, In h (d_vis st) -> reach (full_adj p) (NIntro root) (NIntro h);
  i_range : forall h, In h (d_vis st) -> h < List.length (graphs p);
  i_ownsrc : forall h o, lookup Nat.eqb h (d_own st) = Some o -> exists k D, In (k, h) (subs_of p o) /\ In D (d_vis st) /\ In o (trav D) }.
Record Ext (st st' : dstate) : Prop := {
  e_post : exists new, d_post st' = d_post st ++ new;
  e_vis : forall x, In x (d_vis st) -> In x (d_vis st');
  e_own : forall h o, lookup Nat.eqb h (d_own st) = Some o -> lookup Nat.eqb h (d_own st') = Some o }.

Lemma Ext_refl st : Ext st st.
Proof. constructor; [exists []; now rewrite app_nil_r|auto|auto]. Qed.
Lemma Ext_trans a b c : Ext a b -> Ext b c -> Ext a c.
Proof. intros [[n1 E1] V1 O1] [[n2 E2] V2 O2]. constructor; [exists (n1 ++ n2); now rewrite E2, E1, app_assoc|auto|auto]. Qed.
Lemma Ext_post_In a b x : Ext a b -> In x (d_post a) -> In x (d_post b).
Proof. intros [[n E] _ _] H. rewrite E. apply in_or_app. now left. Qed.
Lemma Just_mono v v' h : (forall x, In x v -> In x v') -> Just v h -> Just v' h.
Proof. intros Hs [D [x [k [H1 H2]]]]. exists D, x, k. split; [auto|exact H2]. Qed.

Definition Spec (fuel : nat) : Prop :=
  forall st g st', discover fuel p st g = inl st' -> Inv st ->
    reach (full_adj p) (NIntro root) (NIntro g) -> (g = root \/ Just (d_vis st) g) ->
    (forall x, gray st x -> rank (NIntro g) < rank (NIntro x)) ->
    Inv st' /\ Ext st st' /\ (forall x, gray st' x <-> gray st x) /\ In g (d_post st').

(* the inner loop: the subgraph attributes of one node nd met while traversing g *)
Lemma inner_spec f (IH : Spec f) g nd : In nd (trav g) ->
  forall acc acc', foldM (inner_step f nd) (subs_of p nd) acc = inl acc' ->
    Inv (stof acc) -> In g (d_vis (stof acc)) ->
    (forall x, gray (stof acc) x -> rank (NIntro g) <= rank (NIntro x)) ->
    Inv (stof acc') /\ Ext (stof acc) (stof acc') /\ (forall x, gray (stof acc') x <-> gray (stof acc) x) /\
    (forall k h, In (k, h) (subs_of p nd) -> lookup Nat.eqb h (d_own (stof acc')) = Some nd /\ In h (d_post (stof acc'))).
Proof.
  intros Hnd acc acc' H HI Hg Hgr.
  pose (P := fun (done : list (string * nat)) (a : dacc) =>
     Inv (stof a) /\ Ext (stof acc) (stof a) /\ (forall x, gray (stof a) x <-> gray (stof acc) x) /\
     (forall k h, In (k, h) done -> lookup Nat.eqb h (d_own (stof a)) = Some nd /\ In h (d_post (stof a)))).
  change (P ([] ++ subs_of p nd) acc').
  apply (foldM_prefix (inner_step f nd) P (subs_of p nd) [] acc acc'); [| |exact H].
  { split; [exact HI|]. split; [apply Ext_refl|]. split; [tauto|]. intros k h []. }
  clear H acc'. subst P. cbv beta. intros d [k h] [[[s a] c] u] acc2 [rest Erest] [HI1 [HE1 [HG1 Hd1]]] Hstep. cbn [stof fst] in *.
  assert (Hkh : In (k, h) (subs_of p nd)). { cbn [app] in Erest. rewrite Erest. apply in_or_app. right. now left. }
  unfold inner_step in Hstep. cbn [snd] in Hstep.
  apply bind_ok in Hstep. destruct Hstep as [st' [Hdisc Hstep]].
  assert (Hgs : In g (d_vis s)) by (apply HE1; exact Hg).
  assert (Hrk : rank (NIntro h) < rank (NIntro g)).
  { pose proof (Hrank _ _ (subs_full _ _ _ _ Hkh)) as H1. pose proof (trav_rank _ _ Hnd) as H2. lia. }
  destruct (IH s h st' Hdisc HI1) as [HI2 [HE2 [HG2 Hin2]]].
  { eapply reach_step; [eapply reach_trans; [apply (i_reach _ HI1 g Hgs)|apply trav_reach; exact Hnd]|]. eapply subs_full; exact Hkh. }
  { right. exists g, nd, k. auto. }
  { intros x Hx. apply HG1 in Hx. specialize (Hgr x Hx). lia. }
  assert (Hold : forall k0 h0, In (k0, h0) d -> lookup Nat.eqb h0 (d_own st') = Some nd /\ In h0 (d_post st')).
  { intros k0 h0 H0. destruct (Hd1 k0 h0 H0) as [A B]. split; [now apply HE2|eapply Ext_post_In; eauto]. }
  destruct (lookup Nat.eqb h (d_own st')) as [o|] eqn:El.
  - destruct (nref_eqb_reflect o nd) as [->|]; [|discriminate Hstep]. inversion Hstep; subst. unfold stof. cbn [fst].
    split; [exact HI2|]. split; [eapply Ext_trans; eauto|]. split; [intros x; rewrite HG2; apply HG1|].
    intros k0 h0 H0. apply in_app_or in H0. destruct H0 as [H0|[H0|[]]]; [exact (Hold k0 h0 H0)|]. inversion H0; subst. auto.
  - inversion Hstep; subst. unfold stof. cbn [fst].
    set (st2 := {| d_vis := d_vis st'; d_post := d_post st'; d_own := (h, nd) :: d_own st'; d_all := d_all st';
                   d_claimed := d_claimed st'; d_args := d_args st' |}).
    assert (HE3 : Ext st' st2).
    { constructor; cbn; [exists []; now rewrite app_nil_r|auto|]. intros h0 o Ho. rewrite lookup_cons_nat.
      destruct (Nat.eqb_spec h0 h) as [->|]; [congruence|exact Ho]. }
    split; [|split; [|split]].
    + constructor; cbn [st2 d_vis d_post d_own]; try apply HI2.
      * intros D HD x k0 h0 Hx Hk0. destruct (i_owned _ HI2 D HD x k0 h0 Hx Hk0) as [A B]. split; [now apply (e_own _ _ HE3)|exact B].
      * intros h0 o Ho. rewrite lookup_cons_nat in Ho. destruct (Nat.eqb_spec h0 h) as [->|].
        -- inversion Ho; subst. exists k, g. split; [exact Hkh|]. split; [apply HE2; exact Hgs|exact Hnd].
        -- now apply (i_ownsrc _ HI2).
    + eapply Ext_trans; [exact HE1|]. eapply Ext_trans; eauto.
    + intros x. rewrite <- HG1, <- HG2. unfold gray. subst st2. cbn [d_vis d_post]. tauto.
    + intros k0 h0 H0. subst st2. cbn [d_own d_post] in *. apply in_app_or in H0. destruct H0 as [H0|[H0|[]]].
      * destruct (Hold k0 h0 H0) as [A B]. split; [|exact B]. now apply (e_own _ _ HE3).
      * inversion H0; subst. split; [|exact Hin2]. rewrite lookup_cons_nat, Nat.eqb_refl. reflexivity.
Qed.

Lemma discover_spec : forall fuel, Spec fuel.
Proof.
  induction fuel as [|f IH]; intros st g st' H HI Hreach Hjust Hgray; [discriminate H|].
  rewrite discover_unfold in H.
  destruct (Base.mem Nat.eqb g (d_vis st)) eqn:Hm.
  - inversion H; subst. split; [exact HI|]. split; [apply Ext_refl|]. split; [tauto|].
    assert (Hv : In g (d_vis st')). { apply (BuildFacts.mem_In Nat.eqb Nat.eqb_spec). exact Hm. }
    destruct (in_dec Nat.eq_dec g (d_post st')) as [|Hn]; [assumption|]. exfalso. specialize (Hgray g (conj Hv Hn)). lia.
  - assert (Hnv : ~ In g (d_vis st)).
    { intros Hc. apply (BuildFacts.mem_In Nat.eqb Nat.eqb_spec) in Hc. congruence. }
    destruct (gres (getg p g)) as [|r0 rs] eqn:Egres; [discriminate H|].
    assert (Hrange : g < List.length (graphs p)).
    { destruct (le_lt_dec (List.length (graphs p)) g) as [Hle|]; [|assumption]. unfold getg in Egres. rewrite (nth_overflow _ _ Hle) in Egres. discriminate Egres. }
    set (st0 := {| d_vis := g :: d_vis st; d_post := d_post st; d_own := d_own st; d_all := d_all st;
                   d_claimed := d_claimed st; d_args := d_args st |}) in H.
    cbv zeta in H. apply bind_ok in H. destruct H as [[[[st1 all] claimed] used] [Hloop H]].
    assert (HI0 : Inv st0).
    { constructor; cbn [st0 d_vis d_post d_own]; try apply HI.
      - intros x Hx. right. now apply HI.
      - intros h [<-|Hh]; [destruct Hjust as [->|Hj]; [now left|right; eapply Just_mono; [|exact Hj]; intros; now right]|].
        destruct (i_just _ HI h Hh) as [->|Hj]; [now left|right; eapply Just_mono; [|exact Hj]; intros; now right].
      - intros h [<-|Hh]; [exact Hreach|now apply HI].
      - intros h [<-|Hh]; [exact Hrange|now apply HI].
      - intros h o Ho. destruct (i_ownsrc _ HI h o Ho) as [k [D [A [B C]]]]. exists k, D. split; [exact A|]. split; [now right|exact C]. }
    assert (HG0 : forall x, gray st0 x <-> (x = g \/ gray st x)).
    { intros x. unfold gray. cbn [st0 d_vis d_post]. split.
      - intros [[<-|Hx] Hn]; auto.
      - intros [->|[Hx Hn]]; [split; [now left|]|split; [now right|exact Hn]]. intros Hc. apply Hnv. now apply HI. }
    (* the outer loop over the traversal of g *)
    pose (P := fun (done : list nref) (a : dacc) =>
       Inv (stof a) /\ Ext st0 (stof a) /\ (forall x, gray (stof a) x <-> (x = g \/ gray st x)) /\
       (forall x k h, In x done -> In (k, h) (subs_of p x) -> lookup Nat.eqb h (d_own (stof a)) = Some x /\ In h (d_post (stof a)))).
    assert (HP : P ([] ++ trav g) (st1, all, claimed, used)).
    { apply (foldM_prefix (outer_step f) P (trav g) [] (st0, [], [], [])); [| |exact Hloop].
      { split; [exact HI0|]. split; [apply Ext_refl|]. split; [exact HG0|]. intros x k h []. }
      subst P. cbv beta. intros d nd [[[s a] c] u] acc2 [rest Erest] [HI1 [HE1 [HG1 Hd1]]] Hstep. cbn [stof fst] in *.
      assert (Hnd : In nd (trav g)). { cbn [app] in Erest. rewrite Erest. apply in_or_app. right. now left. }
      unfold outer_step in Hstep.
      destruct (if is_arg p nd then (add_set var_eqb (argvar nd) a, add_set var_eqb (argvar nd) u) else (a, u)) as [a' u'].
      destruct (inner_spec f IH g nd Hnd _ _ Hstep) as [HI2 [HE2 [HG2 Hin2]]]; cbn [stof fst].
      - exact HI1.
      - apply HE1. cbn [st0 d_vis]. now left.
      - intros x Hx. apply HG1 in Hx. destruct Hx as [->|Hx]; [lia|]. specialize (Hgray x Hx). lia.
      - cbn [stof fst] in *. split; [exact HI2|]. split; [eapply Ext_trans; eauto|]. split; [intros x; rewrite HG2; apply HG1|].
        intros x k h Hx Hk. apply in_app_or in Hx. destruct Hx as [Hx|[<-|[]]]; [|exact (Hin2 k h Hk)].
        destruct (Hd1 x k h Hx Hk) as [A B]. split; [now apply HE2|eapply Ext_post_In; eauto]. }
    cbn [app] in HP. destruct HP as [HI1 [HE1 [HG1 Hd1]]]. cbn [stof fst] in *.
    destruct (match gargs (getg p g) with None => (all, diff var_eqb all claimed) | Some l => (union var_eqb all l, l) end) as [all2 args].
    destruct (match inter var_eqb args claimed with [] => false | _ => true end); [discriminate H|].
    destruct (match inter var_eqb claimed used with [] => false | _ => true end); [discriminate H|].
    inversion H; subst; clear H.
    assert (Hg1 : gray st1 g) by (apply HG1; now left).
    assert (HE0 : Ext st st0). { constructor; cbn [st0 d_vis d_post d_own]; [exists []; now rewrite app_nil_r|intros; now right|auto]. }
    split; [|split; [|split]].
    + constructor; cbn [d_vis d_post d_own].
      * apply NoDup_snoc; [apply HI1|apply Hg1].
      * intros x Hx. apply in_app_or in Hx. destruct Hx as [Hx|[<-|[]]]; [now apply HI1|apply Hg1].
      * intros D HD x k h Hx Hk. apply in_app_or in HD. destruct HD as [HD|[<-|[]]].
        -- destruct (i_owned _ HI1 D HD x k h Hx Hk) as [A B]. split; [exact A|now apply before_app].
        -- destruct (Hd1 x k h Hx Hk) as [A B]. split; [exact A|now apply before_snoc].
      * apply HI1.
      * apply HI1.
      * apply HI1.
      * apply HI1.
    + constructor; cbn [d_vis d_post d_own].
      * destruct (e_post _ _ HE1) as [n1 E1]. cbn [st0 d_post] in E1. exists (n1 ++ [g]). rewrite E1. now rewrite app_assoc.
      * intros x Hx. apply HE1. cbn [st0 d_vis]. now right.
      * intros h o Ho. apply HE1. exact Ho.
    + intros x. unfold gray at 1. cbn [d_vis d_post]. split.
      * intros [Hx Hn]. assert (gray st1 x) as G. { split; [exact Hx|]. intros Hc. apply Hn. apply in_or_app. now left. }
        apply HG1 in G. destruct G as [->|G]; [|exact G]. exfalso. apply Hn. apply in_or_app. right. now left.
      * intros G. assert (gray st1 x) as [G1 G2] by (apply HG1; now right). split; [exact G1|].
        intros Hc. apply in_app_or in Hc. destruct Hc as [Hc|[<-|[]]]; [contradiction|]. destruct G as [G _]. contradiction.
    + cbn [d_post]. apply in_or_app. right. now left.
Qed.

(* ---------- what a successful top-level discovery gives ---------- *)
Lemma Inv0 : Inv dstate0.
Proof. constructor; cbn; [constructor|intros x []|intros D []|intros h []|intros h []|intros h []|intros h o H; discriminate H]. Qed.

Hypothesis Hfuel : forall u, rank u < fuel_of p.

Theorem discover_facts d : discover (fuel_of p) p dstate0 root = inl d ->
  NoDup (d_post d) /\ In root (d_post d) /\
  (forall D, In D (d_post d) -> Owned d D) /\
  (forall h, In h (d_post d) -> h = root \/ Just (d_post d) h) /\
  (forall h, In h (d_post d) -> reach (full_adj p) (NIntro root) (NIntro h)).
Proof.
  intros H. destruct (discover_spec _ dstate0 root d H Inv0) as [HI [_ [HG Hin]]].
  - apply reach_refl.
  - now left.
  - intros x [[] _].
  - assert (Hall : forall x, In x (d_vis d) -> In x (d_post d)).
    { intros x Hx. destruct (in_dec Nat.eq_dec x (d_post d)) as [|Hn]; [assumption|]. exfalso.
      assert (gray dstate0 x) as [[] _]. apply HG. now split. }
    split; [apply HI|]. split; [exact Hin|]. split; [apply HI|]. split.
    + intros h Hh. destruct (i_just _ HI h (i_sub _ HI h Hh)) as [->|Hj]; [now left|right]. eapply Just_mono; [exact Hall|exact Hj].
    + intros h Hh. apply HI. now apply HI.
Qed.

(* ... and: the discovered graphs are graphs of the program (so there are at most |graphs p| of them), and every owner entry comes
   from a subgraph attribute met in the traversal of a discovered graph *)
Theorem discover_facts2 d : discover (fuel_of p) p dstate0 root = inl d ->
  List.length (d_post d) <= List.length (graphs p) /\
  (forall h o, lookup Nat.eqb h (d_own d) = Some o -> exists k D, In (k, h) (subs_of p o) /\ In D (d_post d) /\ In o (trav D)).
Proof.
  intros H. destruct (discover_spec _ dstate0 root d H Inv0) as [HI [_ [HG Hin]]].
  - apply reach_refl.
  - now left.
  - intros x [[] _].
  - assert (Hall : forall x, In x (d_vis d) -> In x (d_post d)).
    { intros x Hx. destruct (in_dec Nat.eq_dec x (d_post d)) as [|Hn]; [assumption|]. exfalso.
      assert (gray dstate0 x) as [[] _]. apply HG. now split. }
    split.
    + rewrite <- (seq_length (List.length (graphs p)) 0). apply NoDup_incl_length; [apply HI|].
      intros h Hh. apply in_seq. pose proof (i_range _ HI h (i_sub _ HI h Hh)). lia.
    + intros h o Ho. destruct (i_ownsrc _ HI h o Ho) as [k [D [A [B C]]]]. exists k, D. split; [exact A|]. split; [now apply Hall|exact C].
Qed.

(* every node reachable from the root's result node (inputs and subgraph attributes) lies in the traversal of a discovered graph *)
Theorem discovered_cover d : discover (fuel_of p) p dstate0 root = inl d ->
  forall u, reach (full_adj p) (NIntro root) u -> exists D, In D (d_post d) /\ In u (trav D).
Proof.
  intros H u Hu. destruct (discover_facts d H) as [_ [Hroot [Hown _]]].
  assert (Hdeps : forall a b, In b (deps p a) -> rank b < rank a) by (intros a b Hb; apply Hrank; now apply deps_full).
  assert (Hsrc : forall D, In (NIntro D) (trav D)).
  { intros D. exact (proj2 (proj2 (postorder_spec (deps p) rank Hdeps (fuel_of p) (NIntro D) (Hfuel _)))). }
  induction Hu as [|x y _ IH Hy]; [exists root; split; [exact Hroot|apply Hsrc]|].
  destruct IH as [D [HD Hx]]. unfold full_adj in Hy. apply in_app_or in Hy. destruct Hy as [Hy|Hy].
  - exists D. split; [exact HD|]. unfold trav.
    eapply closed_In; [exact (proj1 (proj2 (postorder_spec (deps p) rank Hdeps (fuel_of p) (NIntro D) (Hfuel _))))|exact Hx|exact Hy].
  - apply in_map_iff in Hy. destruct Hy as [[k h] [<- Hk]]. cbn [snd].
    destruct (Hown D HD x k h Hx Hk) as [_ B]. exists h. split; [eapply before_In_l; exact B|apply Hsrc].
Qed.
End Discover.
