(* SettingsFacts2.v — further proofs about Settings.v (C16): frame (a block touches no other setting), what an
   observation after any scoped prefix sees, and why exception-free programs cannot tell the protected managers from
   the unprotected ones (the reason the suite could not see the defect of the pinned tree). *)
From Coq Require Import List Arith Bool.
From Spox Require Import Settings SettingsFacts.
Import ListNotations.

(* programs in which no exception can arise: no Raise anywhere *)
Fixpoint noraise (p : prog) : bool :=
  match p with
  | Block _ _ body => forallb noraise body
  | Try body => forallb noraise body
  | Raise _ => false
  | _ => true
  end.

Definition distinct_setting (k j : nat) : Prop :=
  match k, j with 0, 0 => False | 1, 1 => False | S (S _), S (S _) => False | _, _ => True end.

(* --- 7. frame: a block leaves every OTHER setting exactly as its body left it ----------------------------- *)
Theorem block_frame k v body s j : distinct_setting k j ->
  get (cur (fst (exec s (Block k v body)))) j = get (cur (fst (run_seq exec (upd s k v) body))) j.
Proof.
  intros Hd. cbn [exec]. destruct (run_seq exec (upd s k v) body) as [s' o]. cbn [fst]. unfold upd. cbn [cur].
  apply get_set_other. exact Hd.
Qed.

(* --- 8. run_seq over an append -------------------------------------------------------------------------------- *)
Lemma run_seq_app (ex : st -> prog -> st * outcome) l1 l2 s :
  run_seq ex s (l1 ++ l2) =
  match run_seq ex s l1 with (s', Normal) => run_seq ex s' l2 | r => r end.
Proof.
  revert s. induction l1 as [|q t IH]; intros s; cbn [app run_seq]; [reflexivity|].
  destruct (ex s q) as [s' o]. destruct o; [apply IH|reflexivity].
Qed.

(* after ANY scoped prefix that completes, an observation inside the block sees the block's settings *)
Theorem obs_after_scoped_prefix l s :
  forallb scoped l = true -> snd (run_seq exec s l) = Normal ->
  exists s1, run_seq exec s (l ++ [Obs]) = (s1, Normal) /\ hd (0,0,0) (log s1) = cur s.
Proof.
  intros Hsc Hn. rewrite run_seq_app. pose proof (prog_scoped_restores l Hsc s) as Hc.
  destruct (run_seq exec s l) as [s' o]. cbn [fst snd] in *. subst o.
  cbn [run_seq exec]. eexists. split; [reflexivity|]. cbn [log hd]. exact Hc.
Qed.

Theorem obs_in_block_after_scoped_prefix k v l s :
  forallb scoped l = true -> snd (run_seq exec (upd s k v) l) = Normal ->
  exists s1, run_seq exec (upd s k v) (l ++ [Obs]) = (s1, Normal) /\ hd (0,0,0) (log s1) = set (cur s) k v.
Proof. intros Hsc Hn. exact (obs_after_scoped_prefix l (upd s k v) Hsc Hn). Qed.

(* --- 9. without exceptions the unprotected managers behave exactly like the protected ones ------------------- *)
Lemma run_seq_agree (l : list prog) :
  Forall (fun p => noraise p = true -> forall s, exec_nofinally s p = exec s p /\ snd (exec s p) = Normal) l ->
  forallb noraise l = true ->
  forall s, run_seq exec_nofinally s l = run_seq exec s l /\ snd (run_seq exec s l) = Normal.
Proof.
  induction l as [|q t IH]; intros HF Hs s; cbn [run_seq]; [split; reflexivity|].
  inversion HF as [|q' t' Hq Ht]; subst. cbn [forallb] in Hs. apply andb_prop in Hs. destruct Hs as [Hsq Hst].
  destruct (Hq Hsq s) as [He Hn]. rewrite He. destruct (exec s q) as [s' o]. cbn [snd] in Hn. subst o.
  apply IH; assumption.
Qed.

Lemma exec_agree : forall p, noraise p = true -> forall s, exec_nofinally s p = exec s p /\ snd (exec s p) = Normal.
Proof.
  induction p as [k v body IH|e|body IH|k v| |] using prog_ind'; intros Hn s; cbn [exec exec_nofinally];
    try (split; reflexivity).
  - cbn [noraise] in Hn. destruct (run_seq_agree body IH Hn (upd s k v)) as [He Ho]. rewrite He.
    destruct (run_seq exec (upd s k v) body) as [s' o]. cbn [snd] in Ho. subst o. split; reflexivity.
  - discriminate.
  - cbn [noraise] in Hn. destruct (run_seq_agree body IH Hn s) as [He Ho]. rewrite He.
    destruct (run_seq exec s body) as [s' o]. split; reflexivity.
Qed.

Theorem noraise_programs_cannot_tell l :
  forallb noraise l = true -> forall s0, run_prog_nofinally s0 l = run_prog s0 l /\ snd (fst (run_prog s0 l)) = Normal.
Proof.
  intros Hn s0. unfold run_prog_nofinally, run_prog.
  assert (HF : Forall (fun p => noraise p = true -> forall s, exec_nofinally s p = exec s p /\ snd (exec s p) = Normal) l).
  { apply Forall_forall. intros p _. apply exec_agree. }
  destruct (run_seq_agree l HF Hn (mkst s0 [])) as [He Ho]. rewrite He.
  destruct (run_seq exec (mkst s0 []) l) as [s o]. cbn [snd] in Ho. subst o. split; reflexivity.
Qed.

(* --- 10. and with one: an unprotected block whose body raises restores nothing ------------------------------ *)
Theorem nofinally_block_skips_restore k v body s e :
  snd (run_seq exec_nofinally (upd s k v) body) = Raised e ->
  exec_nofinally s (Block k v body) = run_seq exec_nofinally (upd s k v) body.
Proof.
  intros H. cbn [exec_nofinally]. destruct (run_seq exec_nofinally (upd s k v) body) as [s' o]. cbn [snd] in H. subst o. reflexivity.
Qed.

(* --- 11. nested blocks of the SAME setting: the innermost value is in force, and leaving the inner block brings the OUTER value back --- *)
Theorem innermost_wins_and_outer_returns k v w s :
  exists s2, run_seq exec (upd s k v) [Block k w [Obs]; Obs] = (s2, Normal) /\
             log s2 = [set (cur s) k v; set (cur s) k w] ++ log s /\ cur s2 = set (cur s) k v.
Proof.
  eexists. cbn [run_seq exec]. unfold upd. cbn [cur log fst]. rewrite !get_set_same, !set_set.
  split; [reflexivity|]. split; reflexivity.
Qed.

(* non-vacuity *)
Example noraise_example :
  let p := [Block 0 3 [Obs; Try [Block 1 2 [Obs; SetG 2 9; Obs]]; Obs]; Obs] in
  forallb noraise p = true /\ run_prog_nofinally (0,1,2) p = run_prog (0,1,2) p /\
  run_prog (0,1,2) p = ((0,1,9), Normal, [(3,1,2); (3,2,2); (3,2,9); (3,1,9); (0,1,9)]).
Proof. repeat split. Qed.
Example frame_example :
  distinct_setting 0 2 /\ get (cur (fst (exec (mkst (0,1,2) []) (Block 0 3 [SetG 2 9; Raise 1])))) 2 = 9.
Proof. split; [exact I|reflexivity]. Qed.
Example obs_prefix_example :
  let l := [Block 1 5 [Obs]; Try [Block 2 7 [Raise 3]]] in
  forallb scoped l = true /\ snd (run_seq exec (upd (mkst (0,1,2) []) 0 4) l) = Normal.
Proof. split; reflexivity. Qed.
