(* TensorAttrFacts.v — proofs about TensorAttr.v (C10). *)
From Coq Require Import NArith ZArith List Bool String Lia.
From Spox Require Import Tensor TensorFacts TensorAttr.
Import ListNotations.
Open Scope N_scope.

Lemma all_some_spec {A B} (f : A -> option B) (d : B) l :
  all_some (map f l) = if forallb (fun x => is_some (f x)) l then Some (map (fun x => opt_default d (f x)) l) else None.
Proof.
  induction l as [|a l IH]; [reflexivity|]. cbn [map all_some forallb]. destruct (f a) as [b|]; [|reflexivity].
  cbn [is_some andb opt_default]. rewrite IH. destruct (forallb _ l); reflexivity.
Qed.

Lemma list_kind_checked k n l :
  match k with AFloat32s | AInt64s | AStrings | ATensors => True | _ => False end ->
  validate k n (mk_list true k l) =
  if kind_ok k (PList l) then Ok (mkA n (declared k) (emit k (PList l))) else Err EType.
Proof.
  destruct k; try contradiction; intros _; unfold mk_list, kind_ok, emit, items_of, as_iter; cbn [opt_default].
  - rewrite (all_some_spec float_item 0). destruct (forallb _ l); reflexivity.
  - rewrite (all_some_spec int_item 0%Z). destruct (forallb _ l); reflexivity.
  - rewrite (all_some_spec str_item []). destruct (forallb _ l); reflexivity.
  - rewrite (all_some_spec (tensor_item true) (mkP 0 [] (DRaw []))). destruct (forallb _ l); reflexivity.
Qed.

Lemma list_kind_items k v l :
  match k with AFloat32s | AInt64s | AStrings | ATensors => True | _ => False end ->
  items_of v = Some l -> kind_ok k v = kind_ok k (PList l) /\ emit k v = emit k (PList l).
Proof.
  intros Hk H. assert (H' : items_of (PList l) = Some l) by reflexivity.
  destruct k; try contradiction; unfold kind_ok, emit; rewrite H, H'; destruct v; auto.
Qed.

Lemma list_kind_notiter k v :
  match k with AFloat32s | AInt64s | AStrings | ATensors => True | _ => False end ->
  as_iter v = INotIterable -> kind_ok k v = false.
Proof.
  intros Hk H. destruct k; try contradiction; unfold kind_ok, items_of; rewrite H; destruct v; reflexivity.
Qed.

(* construction succeeds iff the value is of the declared kind, else TypeError; name / type / value as specified *)
Theorem attr_kind_checked k n v : modelled k v = true ->
  make_attr true k n v = if kind_ok k v then Ok (mkA n (declared k) (emit k v)) else Err EType.
Proof.
  intros M.
  assert (L : match k with AFloat32s | AInt64s | AStrings | ATensors => True | _ => False end ->
              make_attr true k n v = if kind_ok k v then Ok (mkA n (declared k) (emit k v)) else Err EType).
  { intros Hk.
    assert (E : make_attr true k n v =
                match as_iter v with
                | INotIterable => Err EType | IUnmodelled => Err EUnmodelled
                | IItems l => if (match k with AFloat32s | AInt64s => existsb is_arr l | _ => false end) then Err EUnmodelled
                              else validate k n (mk_list true k l)
                end) by (destruct k; try contradiction; reflexivity).
    rewrite E. clear E.
    assert (M' : modelled k v = match as_iter v with
                 | IUnmodelled => false
                 | IItems l => match k with AFloat32s | AInt64s => negb (existsb is_arr l) | _ => true end
                 | INotIterable => true end) by (destruct k; try contradiction; reflexivity).
    rewrite M' in M. clear M'.
    destruct (as_iter v) as [| |l] eqn:A.
    - now rewrite (list_kind_notiter k v Hk A).
    - discriminate.
    - assert (I : items_of v = Some l) by (unfold items_of; now rewrite A).
      destruct (list_kind_items k v l Hk I) as [K1 K2]. rewrite K1, K2.
      assert (X : (match k with AFloat32s | AInt64s => existsb is_arr l | _ => false end) = false).
      { destruct k; try reflexivity; now apply negb_true_iff in M. }
      rewrite X. now apply list_kind_checked. }
  destruct k; try (apply L; exact I); clear L.
  all: destruct v; try reflexivity; cbn [make_attr kind_ok emit mk_scalar];
    try (destruct (z_to_f64 z); reflexivity); try (destruct b; reflexivity); try (destruct (in_i64 z); reflexivity);
    try (destruct (is_text s); reflexivity); try (destruct (wf t); reflexivity).
Qed.

(* the pinned tree differs from that in exactly these ways *)
Theorem attr_pinned_refuted :
  make_attr false ATensor "value" (PInt 5) = Err EAttribute /\
  make_attr false ADtype "to" PDtypeBad = Err EValue /\
  kind_ok ATensors (PList [PArr (mkT I64 [] (PNum [1]))]) = true /\
  make_attr false ATensors "x" (PList [PArr (mkT I64 [] (PNum [1]))]) = Err EType.
Proof. repeat split; reflexivity. Qed.

Theorem attr_pinned_agrees k n v :
  (k = ATensor -> match v with PArr t => all_lossless t = true | _ => has_copy v = true end) ->
  (k = ADtype -> v <> PDtypeBad) -> k <> ATensors ->
  make_attr false k n v = make_attr true k n v.
Proof.
  intros H1 H2 H3. destruct k; try reflexivity; try congruence.
  - specialize (H1 eq_refl). destruct v as [z|b|z|b64|s|bs| |t|ty|e| |g|x|l|hc]; cbn [make_attr]; try (simpl in H1; try discriminate; reflexivity).
    + now rewrite encode_conservative.
    + simpl in H1. subst. reflexivity.
  - destruct v; try reflexivity. exfalso. now apply H2.
Qed.

(* ------------------------------------------------------------------ const / constant *)
(* const(v, dtype) = constant(value = arr) with arr = numpy.array(v, dtype): one attribute "value" of type TENSOR that
   decodes to exactly arr; the Var's type is arr's type and its propagated value is arr *)
Theorem const_is_constant_of_array arr : wf arr = true ->
  const true arr = Ok (mkC "Constant" [mkA "value" TTENSOR (VT (encode arr))] (Some (array_type arr)) (Some arr)) /\
  attr_tensor (VT (encode arr)) = Some arr.
Proof.
  intros H. unfold const, constant_of. cbn [make_attr]. rewrite H. cbn [a_val constant_propagated].
  destruct (proto_type_encode arr) as [P _]. rewrite P. split; [reflexivity|]. cbn [attr_tensor]. now apply decode_encode.
Qed.

(* Constant built from the other value_* attributes: the propagated value is the tensor the emitted attribute denotes *)
Theorem constant_propagated_is_attr k n v c : modelled k v = true ->
  match k with AFloat32 | AInt64 | AFloat32s | AInt64s => True | AString => match v with PBytes _ => False | _ => True end | _ => False end ->
  constant_of true k n v = Ok c ->
  exists a, c_attrs c = [a] /\ a_name a = n /\ a_type a = declared k /\ attr_tensor (a_val a) = c_value c /\ c_value c <> None.
Proof.
  intros M Hk H. unfold constant_of in H. rewrite (attr_kind_checked k n v M) in H.
  destruct (kind_ok k v) eqn:K; [|discriminate]. injection H as <-. cbn [c_attrs c_value a_val].
  eexists. split; [reflexivity|]. cbn [a_name a_type a_val]. split; [reflexivity|]. split; [reflexivity|].
  destruct k; try contradiction.
  - (* AFloat32 *) destruct v; try discriminate; cbn [emit constant_propagated float_item attr_tensor].
    + cbn [kind_ok] in K. destruct (z_to_f64 z); [|discriminate]. split; [reflexivity|discriminate].
    + destruct b; split; try reflexivity; discriminate.
    + split; [reflexivity|discriminate].
  - (* AInt64 *) destruct v; try discriminate; cbn [emit constant_propagated attr_tensor]; try (split; [reflexivity|discriminate]).
    destruct b; split; try reflexivity; discriminate.
  - (* AString *) destruct v; try discriminate; try contradiction. cbn [emit constant_propagated attr_tensor kind_ok] in *.
    rewrite utf8_roundtrip by exact K. split; [reflexivity|discriminate].
  - (* AFloat32s *)
    unfold kind_ok in K. unfold emit, constant_propagated.
    assert (E : match v with PInt _ | _ => items_of v end = items_of v) by (destruct v; reflexivity).
    destruct (items_of v) as [l|] eqn:I; [|destruct v; discriminate].
    assert (K' : forallb (fun x => is_some (float_item x)) l = true) by (destruct v; exact K).
    assert (G : attr_tensor (VFs (map (fun x => opt_default 0 (float_item x)) (opt_default [] (Some l)))) =
                match all_some (map float_item l) with Some x => Some (mkT F32 [len x] (PNum x)) | None => None end /\
                all_some (map float_item l) <> None).
    { rewrite (all_some_spec float_item 0), K'. cbn [opt_default attr_tensor]. split; [reflexivity|discriminate]. }
    destruct G as [G1 G2]. destruct v; (split; [exact G1|]); destruct (all_some (map float_item l)); try discriminate; congruence.
  - (* AInt64s *)
    unfold kind_ok in K. unfold emit, constant_propagated.
    destruct (items_of v) as [l|] eqn:I; [|destruct v; discriminate].
    assert (K' : forallb (fun x => is_some (int_item x)) l = true) by (destruct v; exact K).
    assert (G : attr_tensor (VIs (map (fun x => opt_default 0%Z (int_item x)) (opt_default [] (Some l)))) =
                match all_some (map int_item l) with Some x => Some (mkT I64 [len x] (PNum (map (wrap 64) x))) | None => None end /\
                all_some (map int_item l) <> None).
    { rewrite (all_some_spec int_item 0%Z), K'. cbn [opt_default attr_tensor]. split; [reflexivity|discriminate]. }
    destruct G as [G1 G2]. destruct v; (split; [exact G1|]); destruct (all_some (map int_item l)); try discriminate; congruence.
Qed.

(* FLOAT / FLOATS: sanity of the rounding model on the classic cases *)
Example f32_rounding_examples :
  f64_to_f32 0x3FB999999999999A = 0x3DCCCCCD /\                      (* 0.1 *)
  f64_to_f32 0x8000000000000000 = 0x80000000 /\                      (* -0.0 *)
  f64_to_f32 0x47EFFFFFF0000000 = 0x7F800000 /\                      (* just above the midpoint to overflow -> inf *)
  f64_to_f32 0x47EFFFFFEFFFFFFF = 0x7F7FFFFF /\                      (* just below -> max finite *)
  f64_to_f32 0x36A0000000000000 = 0x00000001 /\                      (* 2^-149 *)
  f64_to_f32 0x3690000000000000 = 0x00000000 /\                      (* 2^-150: tie -> even (0) *)
  f64_to_f32 0x3690000000000001 = 0x00000001 /\
  f64_to_f32 0x7FF0000000000001 = 0x7FC00000 /\                      (* binary64 sNaN -> quiet *)
  f64_to_f32 0xFFF8000020000000 = 0xFFC00001 /\                      (* payload: top bits kept *)
  z_to_f64 16777217 = Some 0x4170000010000000 /\
  z_to_f64 9007199254740993 = Some 0x4340000000000000 /\             (* 2^53+1 -> even *)
  z_to_f64 (-1) = Some 0xBFF0000000000000 /\
  z_to_f64 (2 ^ 1024) = None.
Proof. vm_compute. repeat split; reflexivity. Qed.

Example attr_examples :
  kind_ok AInt64s (PList [PInt 1; PNpInt (-2)]) = true /\ kind_ok AInt64s (PList [PInt 1; PBool true]) = false /\
  kind_ok AFloat32s (PBytes [97]) = true /\ kind_ok AStrings (PText [97; 0x1F40D]) = true /\
  make_attr true AStrings "s" (PText [97; 233]) = Ok (mkA "s" TSTRINGS (VSs [[97]; [195; 169]])) /\
  make_attr true AInt64 "axis" (PFloat one64) = Err EType /\
  make_attr true AFloat32 "alpha" (PInt 16777217) = Ok (mkA "alpha" TFLOAT (VF 0x4B800000)).
Proof. vm_compute. repeat split; reflexivity. Qed.
