(* ScopeFacts.v — the naming tables of the builder are injective BY CONSTRUCTION (no validator involved):
   ScopeSpace.__setitem__ (set_var / set_node) only ever extends a table by a fresh object under a fresh name, so after any
   successful compile every Var has one name and every name one Var; likewise for nodes.  (C02) *)
From Coq Require Import List String NArith Arith Bool.
From Spox Require Import Base IR Show Build Sem Plan Named Validate BuildFacts.
Import ListNotations.
Open Scope list_scope.

Definition TableInv {A} (t : list (A * String.string)) : Prop := NoDup (map fst t) /\ NoDup (map snd t).
(* names reserved for the contents of inlined models are pairwise distinct and never the name of a Var *)
Definition ResInv (s : scope) : Prop := NoDup (reserved s) /\ (forall x, In x (reserved s) -> ~ In x (map snd (vname s))).
Definition ScopeInv (s : scope) : Prop := TableInv (vname s) /\ TableInv (nname s) /\ ResInv s.

Lemma find_snd_none {A} name (t : list (A * String.string)) :
  find (fun kv => String.eqb name (snd kv)) t = None -> ~ In name (map snd t).
Proof. intros H Hc. apply in_map_iff in Hc. destruct Hc as [x [E Hx]]. pose proof (find_none _ _ H x Hx) as Hn. simpl in Hn.
  rewrite E, String.eqb_refl in Hn. discriminate. Qed.
Lemma lookup_none_notin {A B} (eqb : A -> A -> bool) (Heq : forall a b, reflect (a = b) (eqb a b)) k (l : list (A * B)) :
  lookup eqb k l = None -> ~ In k (map fst l).
Proof. unfold lookup. destruct (find (fun kv => eqb k (fst kv)) l) eqn:E; [discriminate|]. intros _ Hc.
  apply in_map_iff in Hc. destruct Hc as [x [Ex Hx]]. pose proof (find_none _ _ E x Hx) as Hn. simpl in Hn.
  destruct (Heq k (fst x)); [discriminate|congruence]. Qed.

Lemma table_snoc {A} (t : list (A * String.string)) k name :
  TableInv t -> ~ In k (map fst t) -> ~ In name (map snd t) -> TableInv (t ++ [(k, name)]).
Proof. intros [H1 H2] Hk Hn. split; rewrite map_app; simpl; apply NoDup_app_snoc; assumption. Qed.

(* ScopeSpace.__setitem__ *)
Lemma set_var_inv s v name s' : set_var s v name = inl s' -> ScopeInv s -> ScopeInv s' /\ nname s' = nname s.
Proof.
  unfold set_var. intros H [Hv [Hn [Hr1 Hr2]]].
  destruct (find (fun kv => String.eqb name (snd kv)) (vname s)) as [[v' n']|] eqn:Ef.
  - destruct (var_eqb v v'); [|discriminate]. inversion H; subst. split; [exact (conj Hv (conj Hn (conj Hr1 Hr2)))|reflexivity].
  - destruct (mem String.eqb name (reserved s)) eqn:Em; [discriminate|].
    destruct (lookup var_eqb v (vname s)) eqn:El; [discriminate|]. inversion H; subst. cbn. split; [|reflexivity].
    split; [|split; [exact Hn|split; [exact Hr1|]]].
    + apply table_snoc; [assumption|now apply (lookup_none_notin var_eqb var_eqb_spec)|now apply find_snd_none].
    + cbn. intros x Hx Hc. rewrite map_app in Hc. apply in_app_or in Hc. destruct Hc as [Hc|[Hc|[]]]; [exact (Hr2 x Hx Hc)|].
      cbn in Hc. subst x. apply (mem_nIn String.eqb String.eqb_spec) in Em. exact (Em Hx).
Qed.
Lemma set_node_inv s u name s' : set_node s u name = inl s' -> ScopeInv s -> ScopeInv s' /\ vname s' = vname s.
Proof.
  unfold set_node. intros H [Hv [Hn Hr]].
  destruct (find (fun kv => String.eqb name (snd kv)) (nname s)) as [[u' n']|] eqn:Ef.
  - destruct (nref_eqb u u'); [|discriminate]. inversion H; subst. split; [exact (conj Hv (conj Hn Hr))|reflexivity].
  - destruct (lookup nref_eqb u (nname s)) eqn:El; [discriminate|]. inversion H; subst. cbn. split; [|reflexivity].
    split; [exact Hv|split; [|exact Hr]].
    apply table_snoc; [assumption|now apply (lookup_none_notin nref_eqb nref_eqb_spec)|now apply find_snd_none].
Qed.

Lemma foldM_inv {A S} (P : S -> Prop) (f : S -> A -> res S) :
  (forall s a s', f s a = inl s' -> P s -> P s') -> forall l s s', foldM f l s = inl s' -> P s -> P s'.
Proof. intros Hf. induction l as [|a t IH]; intros s s' H Hp; cbn [foldM] in H; [inversion H; subst; assumption|].
  apply bind_ok in H. destruct H as [s1 [H1 H2]]. eapply IH; [exact H2|]. eapply Hf; eauto. Qed.

(* Scope.update: the node under a fresh enumerated name, every output Var under its user name or a fresh generated one *)
Lemma scope_update_inv p un s u prefix s' : scope_update p un s u prefix = inl s' -> ScopeInv s -> ScopeInv s'.
Proof.
  unfold scope_update. destruct (enum (ncnt s) (prefix ++ node_ident p u))%string as [nm nc]. intros H Hs.
  apply bind_ok in H. destruct H as [s1 [H1 H2]].
  apply set_node_inv in H1; [|exact Hs]. destruct H1 as [Hs1 _].
  revert H2 Hs1. apply foldM_inv. intros s2 [k fld] s3 Hf Hs2. cbn [fst snd] in Hf.
  destruct (var_name p un (V u k)) as [n|].
  - apply set_var_inv in Hf; [tauto|exact Hs2].
  - destruct (maybe_enum (vcnt s2) (nm ++ "_" ++ fld))%string as [n vc]. apply set_var_inv in Hf; [tauto|exact Hs2].
Qed.

(* ---------- renaming of an inlined graph only reserves fresh names ---------- *)
Lemma reserve_free_inv fuel base : forall r sc r' sc', reserve_free fuel base r sc = inl (r', sc') -> ScopeInv sc -> ScopeInv sc'.
Proof. induction fuel as [|f IH]; intros r sc r' sc' H Hs; cbn [reserve_free] in H.
  - destruct (name_taken sc r) eqn:Ec; [discriminate H|]. revert H Hs Ec. clear. intros H [Hv [Hn [Hr1 Hr2]]] Ec. inversion H; subst.
    unfold name_taken in Ec. apply orb_false_elim in Ec. destruct Ec as [E1 E2].
    apply (mem_nIn String.eqb String.eqb_spec) in E1. apply (mem_nIn String.eqb String.eqb_spec) in E2.
    split; [exact Hv|split; [exact Hn|split; cbn]].
    + apply NoDup_app_snoc; assumption.
    + intros x Hx. apply in_app_or in Hx. destruct Hx as [Hx|[Hx|[]]]; [exact (Hr2 x Hx)|subst x; exact E2].
  - destruct (name_taken sc r) eqn:Ec.
    + destruct (enum (vcnt sc) base) as [r2 vc2]. eapply IH; [exact H|]. exact Hs.
    + revert H Hs Ec. clear. intros H [Hv [Hn [Hr1 Hr2]]] Ec. inversion H; subst.
      unfold name_taken in Ec. apply orb_false_elim in Ec. destruct Ec as [E1 E2].
      apply (mem_nIn String.eqb String.eqb_spec) in E1. apply (mem_nIn String.eqb String.eqb_spec) in E2.
      split; [exact Hv|split; [exact Hn|split; cbn]].
      * apply NoDup_app_snoc; assumption.
      * intros x Hx. apply in_app_or in Hx. destruct Hx as [Hx|[Hx|[]]]; [exact (Hr2 x Hx)|subst x; exact E2]. Qed.
Lemma reserve_prefixed_inv nm sc name r sc' : reserve_prefixed nm sc name = inl (r, sc') -> ScopeInv sc -> ScopeInv sc'.
Proof. unfold reserve_prefixed. destruct (String.eqb name ""); [intros H; inversion H; subst; auto|].
  destruct (maybe_enum (vcnt sc) (nm ++ "__" ++ name))%string as [r0 vc]. intros H Hs. eapply reserve_free_inv; [exact H|exact Hs]. Qed.

Definition rsame (st st' : rstate) : Prop := ScopeInv (fst (fst st)) -> ScopeInv (fst (fst st')).
Lemma rsame_refl st : rsame st st. Proof. intros H; exact H. Qed.
Lemma rsame_trans a b c : rsame a b -> rsame b c -> rsame a c. Proof. unfold rsame; auto. Qed.

Section Ren.
Variables (nm : String.string) (u : nref) (operands : list (option var)) (in_names out_names : list String.string).

Lemma rename_val_same st name r st' : rename_val nm u operands in_names out_names st name = inl (r, st') -> rsame st st'.
Proof. unfold rename_val. destruct st as [[sc vt] nt].
  destruct (index_last name in_names 0 None) as [i|].
  - destruct (nth i operands None); [|discriminate]. intros H. apply bind_ok in H. destruct H as [x [_ H]]. inversion H; subst. apply rsame_refl.
  - destruct (index_last name out_names 0 None) as [k|].
    + intros H. apply bind_ok in H. destruct H as [x [_ H]]. inversion H; subst. apply rsame_refl.
    + destruct (lookup String.eqb name vt); [intros H; inversion H; subst; apply rsame_refl|].
      intros H. apply bind_ok in H. destruct H as [[r0 sc0] [H1 H2]]. inversion H2; subst. unfold rsame. cbn.
      eapply reserve_prefixed_inv; eauto. Qed.
Lemma rename_node_same st name r st' : rename_node nm st name = inl (r, st') -> rsame st st'.
Proof. unfold rename_node. destruct st as [[sc vt] nt]. destruct (String.eqb name ""); [intros H; inversion H; subst; apply rsame_refl|].
  destruct (lookup String.eqb name nt); [intros H; inversion H; subst; apply rsame_refl|].
  intros H. apply bind_ok in H. destruct H as [[r0 sc0] [H1 H2]]. inversion H2; subst. unfold rsame. cbn.
  eapply reserve_prefixed_inv; eauto. Qed.
Lemma mapS_same {A} (f : rstate -> A -> res (String.string * rstate)) :
  (forall st a r st', f st a = inl (r, st') -> rsame st st') ->
  forall l st r st', mapS f st l = inl (r, st') -> rsame st st'.
Proof. intros Hf. induction l as [|a t IH]; intros st r st' H; cbn [mapS] in H; [inversion H; subst; apply rsame_refl|].
  apply bind_ok in H. destruct H as [[r1 st1] [H1 H]]. apply bind_ok in H. destruct H as [[r2 st2] [H2 H]]. inversion H; subst.
  eapply rsame_trans; [eapply Hf; exact H1|eapply IH; exact H2]. Qed.
End Ren.

(* induction principle for the nested foreign graph *)
Section OInd.
Variables (P : ograph -> Prop) (Q : onode -> Prop).
Hypothesis HG : forall gi gin b go_ vi, Forall Q b -> P (OGraph gi gin b go_ vi).
Hypothesis HN : forall nm op d i o al,
  Forall (fun ka : String.string * option ograph => match snd ka with Some g => P g | None => True end) al -> Q (ONode nm op d i o al).
Fixpoint ograph_ind' (g : ograph) : P g :=
  match g with OGraph gi gin b go_ vi =>
    HG gi gin b go_ vi ((fix go (l : list onode) : Forall Q l :=
                           match l with [] => Forall_nil _ | n :: t => Forall_cons n (onode_ind' n) (go t) end) b) end
with onode_ind' (n : onode) : Q n :=
  match n with ONode nm op d i o al =>
    HN nm op d i o al
      ((fix go (l : list (String.string * option ograph)) :
          Forall (fun ka : String.string * option ograph => match snd ka with Some g => P g | None => True end) l :=
          match l with
          | [] => Forall_nil _
          | (k, Some g) :: t => Forall_cons (k, Some g) (ograph_ind' g) (go t)
          | (k, None) :: t => Forall_cons (k, None) I (go t)
          end) al)
  end.
End OInd.

Section Ren2.
Variables (nm : String.string) (u : nref) (operands : list (option var)) (in_names out_names : list String.string).
Notation rv := (rename_val nm u operands in_names out_names).
Notation ron := (rename_onode nm u operands in_names out_names).
Notation rog := (rename_ograph nm u operands in_names out_names).

Lemma rename_same : (forall g st r st', rog st g = inl (r, st') -> rsame st st').
Proof.
  apply (ograph_ind' (fun g => forall st r st', rog st g = inl (r, st') -> rsame st st')
                     (fun n => forall st r st', ron st n = inl (r, st') -> rsame st st')).
  - intros gi gin b go_ vi HF st r st' H. cbn [rename_ograph] in H.
    apply bind_ok in H. destruct H as [[r1 s1] [H1 H]]. apply bind_ok in H. destruct H as [[r2 s2] [H2 H]].
    apply bind_ok in H. destruct H as [[r3 s3] [H3 H]]. apply bind_ok in H. destruct H as [[r4 s4] [H4 H]].
    apply bind_ok in H. destruct H as [[r5 s5] [H5 H]]. inversion H; subst. cbn [snd] in *.
    eapply rsame_trans; [eapply (mapS_same rv (rename_val_same nm u operands in_names out_names)); exact H1|].
    eapply rsame_trans; [eapply (mapS_same rv (rename_val_same nm u operands in_names out_names)); exact H2|].
    eapply rsame_trans; [|eapply rsame_trans; [eapply (mapS_same rv (rename_val_same nm u operands in_names out_names)); exact H4|
                                              eapply (mapS_same rv (rename_val_same nm u operands in_names out_names)); exact H5]].
    clear - HF H3. revert s2 r3 s3 H3. induction b as [|n t IH]; intros s2 r3 s3 H3.
    + inversion H3; subst. apply rsame_refl.
    + inversion HF as [|x l Hn Ht]; subst. apply bind_ok in H3. destruct H3 as [[rn sn] [Hn1 H3]].
      apply bind_ok in H3. destruct H3 as [[rt st2] [Ht1 H3]]. inversion H3; subst. cbn [snd] in *.
      eapply rsame_trans; [eapply Hn; exact Hn1|eapply IH; eauto].
  - intros nm0 op d i o al HF st r st' H. cbn [rename_onode] in H.
    apply bind_ok in H. destruct H as [[r1 s1] [H1 H]]. apply bind_ok in H. destruct H as [[r2 s2] [H2 H]].
    apply bind_ok in H. destruct H as [[r3 s3] [H3 H]]. apply bind_ok in H. destruct H as [[r4 s4] [H4 H]]. inversion H; subst. cbn [snd] in *.
    eapply rsame_trans; [eapply rename_node_same; exact H1|].
    eapply rsame_trans; [eapply (mapS_same rv (rename_val_same nm u operands in_names out_names)); exact H2|].
    eapply rsame_trans; [eapply (mapS_same rv (rename_val_same nm u operands in_names out_names)); exact H3|].
    clear - HF H4. revert s3 r4 st' H4. induction al as [|[k [g|]] t IH]; intros s3 r4 s4 H4.
    + inversion H4; subst. apply rsame_refl.
    + inversion HF as [|x l Hg Ht]; subst. cbn [snd] in Hg. apply bind_ok in H4. destruct H4 as [[rg sg] [Hg1 H4]].
      apply bind_ok in H4. destruct H4 as [[rt st2] [Ht1 H4]]. inversion H4; subst. cbn [snd] in *.
      eapply rsame_trans; [eapply Hg; exact Hg1|eapply IH; eauto].
    + inversion HF as [|x l Hg Ht]; subst. apply bind_ok in H4. destruct H4 as [[rt st2] [Ht1 H4]]. inversion H4; subst. cbn [snd] in *.
      eapply IH; eauto.
Qed.
Lemma rename_onode_same : forall n st r st', ron st n = inl (r, st') -> rsame st st'.
Proof.
  intros [nm0 op d i o al] st r st' H. cbn [rename_onode] in H.
  apply bind_ok in H. destruct H as [[r1 s1] [H1 H]]. apply bind_ok in H. destruct H as [[r2 s2] [H2 H]].
  apply bind_ok in H. destruct H as [[r3 s3] [H3 H]]. apply bind_ok in H. destruct H as [[r4 s4] [H4 H]]. inversion H; subst. cbn [snd] in *.
  eapply rsame_trans; [eapply rename_node_same; exact H1|].
  eapply rsame_trans; [eapply (mapS_same rv (rename_val_same nm u operands in_names out_names)); exact H2|].
  eapply rsame_trans; [eapply (mapS_same rv (rename_val_same nm u operands in_names out_names)); exact H3|].
  clear - H4. revert s3 r4 st' H4. induction al as [|[k [g|]] t IH]; intros s3 r4 s4 H4.
  - inversion H4; subst. apply rsame_refl.
  - apply bind_ok in H4. destruct H4 as [[rg sg] [Hg1 H4]].
    apply bind_ok in H4. destruct H4 as [[rt st2] [Ht1 H4]]. inversion H4; subst. cbn [snd] in *.
    eapply rsame_trans; [eapply rename_same; exact Hg1|eapply IH; eauto].
  - apply bind_ok in H4. destruct H4 as [[rt st2] [Ht1 H4]]. inversion H4; subst. cbn [snd] in *. eapply IH; eauto.
Qed.
End Ren2.

(* ---------- compile keeps the naming tables injective ---------- *)
Lemma body_loop_same nm u operands gi go_ : forall body st r st',
  (fix go (st : rstate) (l : list onode) {struct l} : res (list mraw * rstate) :=
     match l with
     | [] => ret ([], st)
     | n :: t => do rn <- rename_onode nm u operands gi go_ st n ;; do rt <- go (snd rn) t ;; ret (fst rn :: fst rt, snd rt)
     end) st body = inl (r, st') -> rsame st st'.
Proof. induction body as [|n t IH]; intros st r st' H.
  - inversion H; subst. apply rsame_refl.
  - apply bind_ok in H. destruct H as [[rn sn] [Hn H]]. apply bind_ok in H. destruct H as [[rt st2] [Ht H]]. inversion H; subst. cbn [snd] in *.
    eapply rsame_trans; [eapply rename_onode_same; exact Hn|eapply IH; exact Ht]. Qed.

Section CompileInv.
Variables (p : prog) (un : names) (args_of : nat -> list var) (own_of : nat -> list nref)
          (fbuild : nat -> nat -> res (list mnode * req * list fdesc)).
Notation compile := (compile p un args_of own_of fbuild).

Definition acc_inv (acc : list mnode * scope * req * list fdesc * list fdesc) : Prop :=
  let '(ms, s, rq, fs, sfs) := acc in ScopeInv s.
Definition sg_inv (acc : list (String.string * option mgraph) * scope * req * list fdesc) : Prop :=
  let '(l, s, rq, fs) := acc in ScopeInv s.

Theorem compile_inv : forall fuel s g prefix is_main mg s' rq fs,
  compile fuel s g prefix is_main = inl (mg, s', rq, fs) -> ScopeInv s -> ScopeInv s'.
Proof.
  induction fuel as [|f IH]; intros s g prefix is_main mg s' rq fs H Hs; [discriminate H|].
  cbn [Build.compile] in H.
  apply bind_ok in H. destruct H as [s1 [H1 H]].
  assert (Hs1 : ScopeInv s1).
  { revert H1 Hs. apply foldM_inv. intros s0 a s0' Hu. eapply scope_update_inv; exact Hu. }
  apply bind_ok in H. destruct H as [[[[[ms s3] rq3] fs0] sfs] [H2 H]].
  assert (Hs3 : ScopeInv s3).
  { change (acc_inv (ms, s3, rq3, fs0, sfs)). revert H2. 
    assert (Hi : acc_inv ([], s1, [], [], [])) by exact Hs1. revert Hi. generalize ([] : list mnode, s1, [] : req, [] : list fdesc, [] : list fdesc).
    intros a0 Hi H2. revert H2 Hi. apply foldM_inv.
    clear - IH. intros [[[[ms s] rq] fs] sfs] u [[[[ms' s'] rq'] fs'] sfs'] Hu Hs. unfold acc_inv in *.
    destruct (is_arg p u); [inversion Hu; subst; exact Hs|].
    destruct u as [n|g'].
    - apply bind_ok in Hu. destruct Hu as [[rqm fsm] [_ Hu]].
      apply bind_ok in Hu. destruct Hu as [s2 [Hu2 Hu]]. apply scope_update_inv in Hu2; [|exact Hs].
      destruct (kind (getn p n)) as [| | |om imp|body fi fo fa] eqn:Hk.
      + inversion Hu; subst. exact Hs.
      + apply bind_ok in Hu. destruct Hu as [o [_ Hu]]. inversion Hu; subst. exact Hu2.
      + (* KOp *)
        apply bind_ok in Hu. destruct Hu as [nm [_ Hu]]. apply bind_ok in Hu. destruct Hu as [inn [_ Hu]].
        apply bind_ok in Hu. destruct Hu as [outn [_ Hu]]. apply bind_ok in Hu. destruct Hu as [[[[al s3] rq3] sfs3] [Hsg Hu]].
        inversion Hu; subst. change (sg_inv (al, s', rq', sfs')). revert Hsg.
        assert (Hi : sg_inv ([], s2, rqm, sfs)) by exact Hu2. revert Hi.
        generalize ([] : list (String.string * option mgraph), s2, rqm, sfs). intros a0 Hi Hsg. revert Hsg Hi. apply foldM_inv.
        intros [[[l sa] rqa] fsa] ka [[[l' sb] rqb] fsb] Hka Hsa. unfold sg_inv in *.
        destruct (snd ka) as [sub|x]; [|inversion Hka; subst; exact Hsa].
        apply bind_ok in Hka. destruct Hka as [[[[mg0 s0] rq0] fs0] [Hc Hka]]. inversion Hka; subst.
        eapply IH; [exact Hc|exact Hsa].
      + (* KInline *)
        apply bind_ok in Hu. destruct Hu as [nm [_ Hu]]. destruct om as [gi gin body go_ vi].
        apply bind_ok in Hu. destruct Hu as [[ri sri] [Hri Hu]]. apply bind_ok in Hu. destruct Hu as [[rb srb] [Hrb Hu]].
        apply bind_ok in Hu. destruct Hu as [[ro sro] [Hro Hu]]. apply bind_ok in Hu. destruct Hu as [[rvi srvi] [Hrvi Hu]].
        apply bind_ok in Hu. destruct Hu as [ids [_ Hu]]. apply bind_ok in Hu. destruct Hu as [inn [_ Hu]].
        apply bind_ok in Hu. destruct Hu as [outn [_ Hu]]. inversion Hu; subst. cbn [fst snd] in *.
        pose proof (rename_val_same nm (NReal n) (ins (getn p n)) gi go_) as Hrv.
        apply (mapS_same _ Hrv) in Hri. apply body_loop_same in Hrb. apply (mapS_same _ Hrv) in Hro. apply (mapS_same _ Hrv) in Hrvi.
        pose proof (rsame_trans _ _ _ Hri (rsame_trans _ _ _ Hrb (rsame_trans _ _ _ Hro Hrvi))) as Hall.
        unfold rsame in Hall. cbn [fst] in Hall. exact (Hall Hu2).
      + (* KFunc *)
        apply bind_ok in Hu. destruct Hu as [nm [_ Hu]]. apply bind_ok in Hu. destruct Hu as [inn [_ Hu]].
        apply bind_ok in Hu. destruct Hu as [outn [_ Hu]]. apply bind_ok in Hu. destruct Hu as [[[[al s3] rq3] sfs3] [Hsg Hu]].
        inversion Hu; subst. change (sg_inv (al, s', rq', sfs')). revert Hsg.
        assert (Hi : sg_inv ([], s2, rqm, sfs)) by exact Hu2. revert Hi.
        generalize ([] : list (String.string * option mgraph), s2, rqm, sfs). intros a0 Hi Hsg. revert Hsg Hi. apply foldM_inv.
        intros [[[l sa] rqa] fsa] ka [[[l' sb] rqb] fsb] Hka Hsa. unfold sg_inv in *.
        destruct (snd ka) as [sub|x]; [|inversion Hka; subst; exact Hsa].
        apply bind_ok in Hka. destruct Hka as [[[[mg0 s0] rq0] fs0] [Hc Hka]]. inversion Hka; subst.
        eapply IH; [exact Hc|exact Hsa].
    - apply bind_ok in Hu. destruct Hu as [s2 [Hu2 Hu]]. apply scope_update_inv in Hu2; [|exact Hs].
      apply bind_ok in Hu. destruct Hu as [nm [_ Hu]]. apply bind_ok in Hu. destruct Hu as [i [_ Hu]].
      apply bind_ok in Hu. destruct Hu as [o [_ Hu]]. inversion Hu; subst. exact Hu2. }
  destruct (Nat.eqb (List.length (gres (getg p g))) 0); [discriminate H|].
  apply bind_ok in H. destruct H as [ai [_ H]]. apply bind_ok in H. destruct H as [ro [_ H]]. inversion H; subst. exact Hs3.
Qed.
End CompileInv.

Lemma scope0_inv : ScopeInv scope0.
Proof. unfold ScopeInv, TableInv, ResInv, scope0; cbn. repeat split; try constructor. intros x []. Qed.

(* every successful Builder run ends with injective naming tables; reserved names never name a Var *)
Theorem build_main_scope_inv ffuel p un main b : build_main ffuel p un main = inl b -> ScopeInv (b_scope b).
Proof. destruct ffuel as [|ff]; [discriminate|]. unfold build_main. cbn [build_main_gen]. intros H.
  apply bind_ok in H. destruct H as [d [_ H]]. apply bind_ok in H. destruct H as [[[[mg s] rq] fs] [Hc H]].
  inversion H; subst. cbn [b_scope]. eapply compile_inv; [exact Hc|exact scope0_inv]. Qed.

(* consequences in the vocabulary of the property: one name per Var, one Var per name *)
Lemma table_fst_inj {A} (t : list (A * String.string)) a b n : NoDup (map snd t) -> In (a, n) t -> In (b, n) t -> a = b.
Proof. induction t as [|[k m] t IH]; cbn; intros Hn Ha Hb; [contradiction|]. inversion Hn as [|x l Hx Hl]; subst.
  destruct Ha as [Ha|Ha], Hb as [Hb|Hb].
  - congruence.
  - inversion Ha; subst. exfalso. apply Hx. apply in_map_iff. exists (b, n). auto.
  - inversion Hb; subst. exfalso. apply Hx. apply in_map_iff. exists (a, n). auto.
  - eauto. Qed.
Lemma lookup_In {A B} (eqb : A -> A -> bool) (Heq : forall a b, reflect (a = b) (eqb a b)) k (l : list (A * B)) v :
  lookup eqb k l = Some v -> In (k, v) l.
Proof. unfold lookup. destruct (find (fun kv => eqb k (fst kv)) l) as [[k' v']|] eqn:E; [|discriminate]. intros H. inversion H; subst.
  apply find_some in E. destruct E as [Hin He]. cbn in He. destruct (Heq k k'); [subst; exact Hin|discriminate]. Qed.

Theorem distinct_vars_distinct_names ffuel p un main b v w n :
  build_main ffuel p un main = inl b -> vlook (b_scope b) v = inl n -> vlook (b_scope b) w = inl n -> v = w.
Proof. intros Hb Hv Hw. apply build_main_scope_inv in Hb. destruct Hb as [[_ Hn] _]. unfold vlook in *.
  destruct (lookup var_eqb v (vname (b_scope b))) eqn:Ev; [|discriminate]. destruct (lookup var_eqb w (vname (b_scope b))) eqn:Ew; [|discriminate].
  inversion Hv; inversion Hw; subst. apply (lookup_In var_eqb var_eqb_spec) in Ev. apply (lookup_In var_eqb var_eqb_spec) in Ew.
  eapply table_fst_inj; eauto. Qed.
Theorem distinct_nodes_distinct_names ffuel p un main b v w n :
  build_main ffuel p un main = inl b -> nlook (b_scope b) v = inl n -> nlook (b_scope b) w = inl n -> v = w.
Proof. intros Hb Hv Hw. apply build_main_scope_inv in Hb. destruct Hb as [_ [[_ Hn] _]]. unfold nlook in *.
  destruct (lookup nref_eqb v (nname (b_scope b))) eqn:Ev; [|discriminate]. destruct (lookup nref_eqb w (nname (b_scope b))) eqn:Ew; [|discriminate].
  inversion Hv; inversion Hw; subst. apply (lookup_In nref_eqb nref_eqb_spec) in Ev. apply (lookup_In nref_eqb nref_eqb_spec) in Ew.
  eapply table_fst_inj; eauto. Qed.
Theorem reserved_names_never_name_a_var ffuel p un main b v n :
  build_main ffuel p un main = inl b -> vlook (b_scope b) v = inl n -> ~ In n (reserved (b_scope b)).
Proof. intros Hb Hv Hc. apply build_main_scope_inv in Hb. destruct Hb as [_ [_ [_ Hr]]]. apply (Hr n Hc). unfold vlook in Hv.
  destruct (lookup var_eqb v (vname (b_scope b))) eqn:Ev; [|discriminate]. inversion Hv; subst.
  apply (lookup_In var_eqb var_eqb_spec) in Ev. apply in_map_iff. exists (v, n). auto. Qed.
