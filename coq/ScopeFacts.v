(* ScopeFacts.v — the naming tables of the builder are injective BY CONSTRUCTION (no validator involved):
   ScopeSpace.__setitem__ (set_var / set_node) only ever extends a table by a fresh object under a fresh name, so after any
   successful compile every Var has one name and every name one Var; likewise for nodes.  (C02) *)
From Coq Require Import List String NArith Arith Bool.
From Spox Require Import Base IR Show Build Sem Plan Named Validate BuildFacts CompilePres.
Import ListNotations.
Open Scope list_scope.

Definition TableInv {A} (t : list (A * String.string)) : Prop := NoDup (map fst t) /\ NoDup (map snd t).
(* names reserved for the contents of inlined models are pairwise distinct and never the name of a Var *)
Definition ResInv (s : scope) : Prop := NoDup (reserved s) /\ (forall x, In x (reserved s) -> ~ In x (map snd (vname s))).
Definition ScopeInv (s : scope) : Prop := TableInv (vname s) /\ TableInv (nname s) /\ ResInv s.

Lemma find_snd_none {A} name (t : list (A * String.string)) :
  find (fun kv => String.eqb name (snd kv)) t = None -> ~ In name (map snd t).
Proof. intros H Hc. apply in_map_iff in Hc. destruct Hc as [x [E Hx]]. pose proof (find_none _ _ H x Hx) as Hn. simpl in Hn.
  rewrite E, String.eqb_refl in Hn. discriminate. Qed.
Lemma lookup_none_notin {A B} (eqb : A -> A -> bool) (Heq : forall a b, reflect (a = b) (eqb a b)) k (l : list (A * B)) :
  lookup eqb k l = None -> ~ In k (map fst l).
Proof. unfold lookup. destruct (find (fun kv => eqb k (fst kv)) l) eqn:E; [discriminate|]. intros _ Hc.
  apply in_map_iff in Hc. destruct Hc as [x [Ex Hx]]. pose proof (find_none _ _ E x Hx) as Hn. simpl in Hn.
  destruct (Heq k (fst x)); [discriminate|congruence]. Qed.

Lemma table_snoc {A} (t : list (A * String.string)) k name :
  TableInv t -> ~ In k (map fst t) -> ~ In name (map snd t) -> TableInv (t ++ [(k, name)]).
Proof. intros [H1 H2] Hk Hn. split; rewrite map_app; simpl; apply NoDup_app_snoc; assumption. Qed.

(* ScopeSpace.__setitem__ *)
Lemma set_var_inv s v name s' : set_var s v name = inl s' -> ScopeInv s -> ScopeInv s' /\ nname s' = nname s.
Proof.
  unfold set_var. intros H [Hv [Hn [Hr1 Hr2]]].
  destruct (find (fun kv => String.eqb name (snd kv)) (vname s)) as [[v' n']|] eqn:Ef.
  - destruct (var_eqb v v'); [|discriminate]. inversion H; subst. split; [exact (conj Hv (conj Hn (conj Hr1 Hr2)))|reflexivity].
  - destruct (mem String.eqb name (reserved s)) eqn:Em; [discriminate|].
    destruct (lookup var_eqb v (vname s)) eqn:El; [discriminate|]. inversion H; subst. cbn. split; [|reflexivity].
    split; [|split; [exact Hn|split; [exact Hr1|]]].
    + apply table_snoc; [assumption|now apply (lookup_none_notin var_eqb var_eqb_spec)|now apply find_snd_none].
    + cbn. intros x Hx Hc. rewrite map_app in Hc. apply in_app_or in Hc. destruct Hc as [Hc|[Hc|[]]]; [exact (Hr2 x Hx Hc)|].
      cbn in Hc. subst x. apply (mem_nIn String.eqb String.eqb_spec) in Em. exact (Em Hx).
Qed.
Lemma set_node_inv s u name s' : set_node s u name = inl s' -> ScopeInv s -> ScopeInv s' /\ vname s' = vname s.
Proof.
  unfold set_node. intros H [Hv [Hn Hr]].
  destruct (find (fun kv => String.eqb name (snd kv)) (nname s)) as [[u' n']|] eqn:Ef.
  - destruct (nref_eqb u u'); [|discriminate]. inversion H; subst. split; [exact (conj Hv (conj Hn Hr))|reflexivity].
  - destruct (lookup nref_eqb u (nname s)) eqn:El; [discriminate|]. inversion H; subst. cbn. split; [|reflexivity].
    split; [exact Hv|split; [|exact Hr]].
    apply table_snoc; [assumption|now apply (lookup_none_notin nref_eqb nref_eqb_spec)|now apply find_snd_none].
Qed.

Lemma ScopeInv_reserve s r : ScopeInv s -> name_taken s r = false -> ScopeInv (with_reserved s (reserved s ++ [r])).
Proof. intros [Hv [Hn [Hr1 Hr2]]] Ec. unfold name_taken in Ec. apply orb_false_elim in Ec. destruct Ec as [E1 E2].
  apply (mem_nIn String.eqb String.eqb_spec) in E1. apply (mem_nIn String.eqb String.eqb_spec) in E2.
  split; [exact Hv|split; [exact Hn|split; cbn]].
  - apply NoDup_app_snoc; assumption.
  - intros x Hx. apply in_app_or in Hx. destruct Hx as [Hx|[Hx|[]]]; [exact (Hr2 x Hx)|subst x; exact E2]. Qed.

Lemma scope_update_scopeinv p un s u prefix s' : scope_update p un s u prefix = inl s' -> ScopeInv s -> ScopeInv s'.
Proof. apply (CompilePres.scope_update_inv_leaf ScopeInv).
  - intros s0 v n s1 H Hs. exact (proj1 (set_var_inv s0 v n s1 H Hs)).
  - intros s0 w n s1 H Hs. exact (proj1 (set_node_inv s0 w n s1 H Hs)).
  - intros s0 c H. exact H.
  - intros s0 c H. exact H. Qed.

(* compile keeps the naming tables injective: instance of the generic preservation theorem (CompilePres.v) *)
Theorem compile_inv p un args_of own_of fbuild : forall fuel s g prefix is_main mg s' rq fs,
  compile p un args_of own_of fbuild fuel s g prefix is_main = inl (mg, s', rq, fs) -> ScopeInv s -> ScopeInv s'.
Proof.
  apply (CompilePres.compile_inv_leaf ScopeInv).
  - intros s v n s' H Hs. exact (proj1 (set_var_inv s v n s' H Hs)).
  - intros s u n s' H Hs. exact (proj1 (set_node_inv s u n s' H Hs)).
  - intros s c H. exact H.
  - intros s c H. exact H.
  - exact ScopeInv_reserve.
Qed.

Lemma scope0_inv : ScopeInv scope0.
Proof. unfold ScopeInv, TableInv, ResInv, scope0; cbn. repeat split; try constructor. intros x []. Qed.

(* every successful Builder run ends with injective naming tables; reserved names never name a Var *)
Theorem build_main_scope_inv ffuel p un main b : build_main ffuel p un main = inl b -> ScopeInv (b_scope b).
Proof. destruct ffuel as [|ff]; [discriminate|]. unfold build_main. cbn [build_main_gen]. intros H.
  apply bind_ok in H. destruct H as [d [_ H]]. apply bind_ok in H. destruct H as [[[[mg s] rq] fs] [Hc H]].
  inversion H; subst. cbn [b_scope]. eapply compile_inv; [exact Hc|exact scope0_inv]. Qed.

(* consequences in the vocabulary of the property: one name per Var, one Var per name *)
Lemma table_fst_inj {A} (t : list (A * String.string)) a b n : NoDup (map snd t) -> In (a, n) t -> In (b, n) t -> a = b.
Proof. induction t as [|[k m] t IH]; cbn; intros Hn Ha Hb; [contradiction|]. inversion Hn as [|x l Hx Hl]; subst.
  destruct Ha as [Ha|Ha], Hb as [Hb|Hb].
  - congruence.
  - inversion Ha; subst. exfalso. apply Hx. apply in_map_iff. exists (b, n). auto.
  - inversion Hb; subst. exfalso. apply Hx. apply in_map_iff. exists (a, n). auto.
  - eauto. Qed.
Lemma lookup_In {A B} (eqb : A -> A -> bool) (Heq : forall a b, reflect (a = b) (eqb a b)) k (l : list (A * B)) v :
  lookup eqb k l = Some v -> In (k, v) l.
Proof. unfold lookup. destruct (find (fun kv => eqb k (fst kv)) l) as [[k' v']|] eqn:E; [|discriminate]. intros H. inversion H; subst.
  apply find_some in E. destruct E as [Hin He]. cbn in He. destruct (Heq k k'); [subst; exact Hin|discriminate]. Qed.

Theorem distinct_vars_distinct_names ffuel p un main b v w n :
  build_main ffuel p un main = inl b -> vlook (b_scope b) v = inl n -> vlook (b_scope b) w = inl n -> v = w.
Proof. intros Hb Hv Hw. apply build_main_scope_inv in Hb. destruct Hb as [[_ Hn] _]. unfold vlook in *.
  destruct (lookup var_eqb v (vname (b_scope b))) eqn:Ev; [|discriminate]. destruct (lookup var_eqb w (vname (b_scope b))) eqn:Ew; [|discriminate].
  inversion Hv; inversion Hw; subst. apply (lookup_In var_eqb var_eqb_spec) in Ev. apply (lookup_In var_eqb var_eqb_spec) in Ew.
  eapply table_fst_inj; eauto. Qed.
Theorem distinct_nodes_distinct_names ffuel p un main b v w n :
  build_main ffuel p un main = inl b -> nlook (b_scope b) v = inl n -> nlook (b_scope b) w = inl n -> v = w.
Proof. intros Hb Hv Hw. apply build_main_scope_inv in Hb. destruct Hb as [_ [[_ Hn] _]]. unfold nlook in *.
  destruct (lookup nref_eqb v (nname (b_scope b))) eqn:Ev; [|discriminate]. destruct (lookup nref_eqb w (nname (b_scope b))) eqn:Ew; [|discriminate].
  inversion Hv; inversion Hw; subst. apply (lookup_In nref_eqb nref_eqb_spec) in Ev. apply (lookup_In nref_eqb nref_eqb_spec) in Ew.
  eapply table_fst_inj; eauto. Qed.
Theorem reserved_names_never_name_a_var ffuel p un main b v n :
  build_main ffuel p un main = inl b -> vlook (b_scope b) v = inl n -> ~ In n (reserved (b_scope b)).
Proof. intros Hb Hv Hc. apply build_main_scope_inv in Hb. destruct Hb as [_ [_ [_ Hr]]]. apply (Hr n Hc). unfold vlook in Hv.
  destruct (lookup var_eqb v (vname (b_scope b))) eqn:Ev; [|discriminate]. inversion Hv; subst.
  apply (lookup_In var_eqb var_eqb_spec) in Ev. apply in_map_iff. exists (v, n). auto. Qed.
