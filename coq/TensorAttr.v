(* TensorAttr.v — model of spox attribute construction (src/spox/_attributes.py) on top of Tensor.v (C10).

   A Python value is classified the way onnx.helper.make_attribute / protobuf see it ([pyval]); every Attr class is a
   declared kind ([akind]).  [make_attr fixed k name v] models  K(v, name)  =  Attr.__init__ + _validate:
   the AttributeProto is built once at the call (and cached), its type must equal the declared kind, and every
   exception raised while building it is turned into TypeError.
     fixed = false : the pinned tree.  Three places do NOT raise TypeError there:
         AttrTensor(v) for a v without .copy()        -> AttributeError (value.copy() runs before _validate)
         AttrDtype(v) for a numpy dtype without ONNX type -> ValueError (onnx 1.22 raises ValueError, spox catches KeyError)
         AttrTensors(arrays)                          -> TypeError although the kind is right (arrays are never converted)
       and tensors are embedded by [encode_pinned].
     fixed = true  : the behaviour the property asks for (TypeError everywhere, [encode]).
   FLOAT / FLOATS hold binary32: the value is Python's float(v) (binary64) narrowed by the C cast, modelled on bit
   patterns by [f64_to_f32] (round to nearest even; NaNs keep their top 22 payload bits and become quiet); Python ints
   go through float(int) = [z_to_f64] first (double rounding, as in the implementation).  No proofs in this file. *)
From Coq Require Import NArith ZArith List Bool String.
From Spox Require Import Tensor.
Import ListNotations.
Open Scope N_scope.

(* ------------------------------------------------------------------ floating point conversions on bit patterns *)
(* sig / 2^shift rounded to nearest, ties to even (shift >= 1) *)
Definition rne (sig shift : N) : N :=
  let q := sig / 2 ^ shift in
  let r := sig mod 2 ^ shift in
  let half := 2 ^ (shift - 1) in
  if (half <? r) || ((r =? half) && N.odd q) then q + 1 else q.

(* C (float)double *)
Definition f64_to_f32 (b : N) : N :=
  let sign := (b / 2 ^ 63) * 2 ^ 31 in
  let e := (b / 2 ^ 52) mod 2 ^ 11 in
  let m := b mod 2 ^ 52 in
  if e =? 2047 then
    (if m =? 0 then sign + 0x7F800000 else sign + 0x7F800000 + N.lor (m / 2 ^ 29) 0x400000)
  else if e =? 0 then sign                                  (* binary64 zeros and denormals: far below 2^-150 *)
  else
    let sig := 2 ^ 52 + m in
    if 897 <=? e then
      let bits := (e - 897) * 2 ^ 23 + rne sig 29 in        (* carry of the rounding runs into the exponent *)
      if 0x7F800000 <=? bits then sign + 0x7F800000 else sign + bits
    else sign + rne sig (926 - e).                          (* binary32 denormal or zero *)

(* Python float(int): correctly rounded, OverflowError (None) beyond the binary64 range *)
Definition z_to_f64 (z : Z) : option N :=
  let a := Z.abs_N z in
  let sign := if (z <? 0)%Z then 2 ^ 63 else 0 in
  if a =? 0 then Some 0
  else
    let L := N.log2 a in
    let q := if L <=? 52 then a * 2 ^ (52 - L) else rne a (L - 52) in
    let bits := (L + 1022) * 2 ^ 52 + q in
    if 0x7FF0000000000000 <=? bits then None else Some (sign + bits).

Definition one64 : N := 0x3FF0000000000000.

(* ------------------------------------------------------------------ spox types (value of AttrType) *)
Inductive sdim := DimN (n : N) | DimS (s : string) | DimU.
Inductive stype := STensor (e : elem) (shape : option (list sdim)) | SSeq (t : stype) | SOpt (t : stype).

(* ------------------------------------------------------------------ Python values as the constructors see them *)
Inductive pyval :=
| PInt (z : Z)                 (* int (not bool) *)
| PBool (b : bool)
| PNpInt (z : Z)               (* numpy integer scalar: numbers.Integral, but not an instance of int *)
| PFloat (b64 : N)             (* float, numpy floating scalar: numbers.Real; binary64 bits of float(v) *)
| PText (s : list N)            (* str, as code points *)
| PBytes (bs : list N)
| PNone
| PArr (t : tensor)            (* numpy.ndarray / numpy scalar with an ONNX element type *)
| PType (ty : stype)           (* spox Tensor / Sequence / Optional *)
| PDtype (e : elem)            (* dtype-like that numpy resolves to an ONNX element type (after normalisation) *)
| PDtypeBad                    (* a numpy dtype without ONNX element type: datetime64, void, bytes_, longdouble *)
| PGraph (g : N)               (* spox Graph *)
| PVar (v : N)                 (* spox Var *)
| PList (l : list pyval)       (* any other iterable, by the items its iteration yields; has .copy() iff list/dict/set *)
| POther (has_copy : bool).    (* anything else (complex, object(), ...) *)

Inductive akind := AFloat32 | AInt64 | AString | ATensor | AType | ADtype | AGraph | AFloat32s | AInt64s | AStrings | ATensors.

(* onnx.AttributeProto.AttributeType *)
Inductive atype := TFLOAT | TINT | TSTRING | TTENSOR | TGRAPH | TTYPE_PROTO | TFLOATS | TINTS | TSTRINGS | TTENSORS.
Definition atype_code (t : atype) : N :=
  match t with TFLOAT => 1 | TINT => 2 | TSTRING => 3 | TTENSOR => 4 | TGRAPH => 5 | TFLOATS => 6 | TINTS => 7 | TSTRINGS => 8
             | TTENSORS => 9 | TTYPE_PROTO => 13 end.
Definition atype_eqb (a b : atype) : bool := atype_code a =? atype_code b.

(* _attribute_proto_type of each class *)
Definition declared (k : akind) : atype :=
  match k with
  | AFloat32 => TFLOAT | AInt64 => TINT | AString => TSTRING | ATensor => TTENSOR | AType => TTYPE_PROTO | ADtype => TINT
  | AGraph => TGRAPH | AFloat32s => TFLOATS | AInt64s => TINTS | AStrings => TSTRINGS | ATensors => TTENSORS
  end.

Inductive avalue :=
| VF (bits32 : N) | VI (z : Z) | VS (bytes : list N) | VT (p : proto) | VG (g : N) | VTP (ty : stype)
| VFs (l : list N) | VIs (l : list Z) | VSs (l : list (list N)) | VTs (l : list proto).

Record aproto := mkA { a_name : string; a_type : atype; a_val : avalue }.

Inductive err := EType | EAttribute | EValue | EUnmodelled.
Inductive res (A : Type) := Ok (a : A) | Err (e : err).
Arguments Ok {A} a.
Arguments Err {A} e.

Definition in_i64 (z : Z) : bool := ((-9223372036854775808 <=? z) && (z <=? 9223372036854775807))%Z.
Definition is_text (s : list N) : bool := forallb scalar_value s.

(* ------------------------------------------------------------------ onnx.helper.make_attribute, singular cases *)
(* (type, value) or an exception (all exceptions inside _to_onnx become TypeError in _validate) *)
Definition mk_scalar (v : pyval) : option (atype * avalue) :=
  match v with
  | PInt z | PNpInt z => if in_i64 z then Some (TINT, VI z) else None           (* protobuf: value out of range *)
  | PBool b => Some (TINT, VI (if b then 1 else 0)%Z)
  | PFloat b => Some (TFLOAT, VF (f64_to_f32 b))
  | PText s => if is_text s then Some (TSTRING, VS (utf8 s)) else None            (* lone surrogate: UnicodeEncodeError *)
  | PBytes bs => Some (TSTRING, VS bs)
  | _ => None     (* iterables give a list-typed attribute or raise; everything else raises: never the declared scalar type *)
  end.

(* _validate: the built AttributeProto's type must equal the declared one *)
Definition validate (k : akind) (name : string) (r : option (atype * avalue)) : res aproto :=
  match r with
  | Some (t, v) => if atype_eqb t (declared k) then Ok (mkA name t v) else Err EType
  | None => Err EType
  end.

(* ------------------------------------------------------------------ list kinds: tuple(value), then protobuf's extend *)
Inductive iter_result := INotIterable | IUnmodelled | IItems (l : list pyval).
Definition as_iter (v : pyval) : iter_result :=
  match v with
  | PList l => IItems l
  | PText s => IItems (map (fun c => PText [c]) s)
  | PBytes bs => IItems (map (fun b => PInt (Z.of_N b)) bs)
  | PArr t => match t_dims t with [] => INotIterable | _ => IUnmodelled end   (* the reflector presents such arrays as PList *)
  | _ => INotIterable
  end.

Definition float_item (v : pyval) : option N :=       (* RepeatedScalarContainer[float].extend *)
  match v with
  | PInt z | PNpInt z => match z_to_f64 z with Some b => Some (f64_to_f32 b) | None => None end
  | PBool b => Some (f64_to_f32 (if b then one64 else 0))
  | PFloat b => Some (f64_to_f32 b)
  | _ => None
  end.
Definition int_item (v : pyval) : option Z :=         (* RepeatedScalarContainer[int64].extend: bool is refused *)
  match v with
  | PInt z | PNpInt z => if in_i64 z then Some z else None
  | _ => None
  end.
Definition str_item (v : pyval) : option (list N) :=
  match v with
  | PText s => if is_text s then Some (utf8 s) else None
  | PBytes bs => Some bs
  | _ => None
  end.
Definition tensor_item (fixed : bool) (v : pyval) : option proto :=
  match v with
  | PArr t => if fixed && wf t then Some (encode t) else None    (* pinned: the ndarray itself is handed to protobuf *)
  | _ => None
  end.

Definition is_arr (v : pyval) : bool := match v with PArr _ => true | _ => false end.

Definition mk_list (fixed : bool) (k : akind) (l : list pyval) : option (atype * avalue) :=
  match k with
  | AFloat32s => match all_some (map float_item l) with Some x => Some (TFLOATS, VFs x) | None => None end
  | AInt64s => match all_some (map int_item l) with Some x => Some (TINTS, VIs x) | None => None end
  | AStrings => match all_some (map str_item l) with Some x => Some (TSTRINGS, VSs x) | None => None end
  | ATensors => match all_some (map (tensor_item fixed) l) with Some x => Some (TTENSORS, VTs x) | None => None end
  | _ => None
  end.

Definition has_copy (v : pyval) : bool :=
  match v with PArr _ | PList _ => true | POther c => c | _ => false end.

(* ------------------------------------------------------------------ K(value, name) *)
Definition make_attr (fixed : bool) (k : akind) (name : string) (v : pyval) : res aproto :=
  match k with
  | AFloat32 =>
      (* if isinstance(value, int): float(value) *)
      match v with
      | PInt z => match z_to_f64 z with Some b => validate k name (mk_scalar (PFloat b)) | None => Err EType end
      | PBool b => validate k name (mk_scalar (PFloat (if b then one64 else 0)))
      | _ => validate k name (mk_scalar v)
      end
  | AInt64 | AString => validate k name (mk_scalar v)
  | ATensor =>
      (* super().__init__(value.copy(), name); _to_onnx = make_attribute(name, from_array(value)) *)
      match v with
      | PArr t => if wf t then Ok (mkA name TTENSOR (VT (if fixed then encode t else encode_pinned t))) else Err EType
      | _ => if fixed || has_copy v then Err EType else Err EAttribute
      end
  | AType => match v with PType ty => Ok (mkA name TTYPE_PROTO (VTP ty)) | _ => Err EType end
  | ADtype =>
      match v with
      | PDtype e => Ok (mkA name TINT (VI (Z.of_N (code e))))
      | PDtypeBad => if fixed then Err EType else Err EValue
      | _ => Err EType
      end
  | AGraph => match v with PGraph g => Ok (mkA name TGRAPH (VG g)) | _ => Err EType end
  | AFloat32s | AInt64s | AStrings | ATensors =>
      match as_iter v with
      | INotIterable => Err EType                                   (* tuple(value): 'x' object is not iterable *)
      | IUnmodelled => Err EUnmodelled
      | IItems l =>
          if (match k with AFloat32s | AInt64s => existsb is_arr l | _ => false end) then Err EUnmodelled
          else validate k name (mk_list fixed k l)
      end
  end.

(* ------------------------------------------------------------------ the specification, by kind *)
Definition items_of (v : pyval) : option (list pyval) := match as_iter v with IItems l => Some l | _ => None end.
Definition is_some {A} (o : option A) : bool := match o with Some _ => true | None => false end.

(* "the value is of the declared kind" *)
Definition kind_ok (k : akind) (v : pyval) : bool :=
  match k, v with
  | AFloat32, PInt z => is_some (z_to_f64 z)
  | AFloat32, PBool _ | AFloat32, PFloat _ => true
  | AInt64, PInt z | AInt64, PNpInt z => in_i64 z
  | AInt64, PBool _ => true
  | AString, PText s => is_text s
  | AString, PBytes _ => true
  | ATensor, PArr t => wf t
  | AType, PType _ => true
  | ADtype, PDtype _ => true
  | AGraph, PGraph _ => true
  | AFloat32s, _ => match items_of v with Some l => forallb (fun x => is_some (float_item x)) l | None => false end
  | AInt64s, _ => match items_of v with Some l => forallb (fun x => is_some (int_item x)) l | None => false end
  | AStrings, _ => match items_of v with Some l => forallb (fun x => is_some (str_item x)) l | None => false end
  | ATensors, _ => match items_of v with Some l => forallb (fun x => is_some (tensor_item true x)) l | None => false end
  | _, _ => false
  end.

Definition opt_default {A} (d : A) (o : option A) : A := match o with Some a => a | None => d end.

(* the exact value that must be emitted for a value of the right kind *)
Definition emit (k : akind) (v : pyval) : avalue :=
  match k, v with
  | AFloat32, PInt z => VF (f64_to_f32 (opt_default 0 (z_to_f64 z)))
  | AFloat32, PBool b => VF (if b then 0x3F800000 else 0)
  | AFloat32, PFloat b => VF (f64_to_f32 b)
  | AInt64, PInt z | AInt64, PNpInt z => VI z
  | AInt64, PBool b => VI (if b then 1 else 0)%Z
  | AString, PText s => VS (utf8 s)
  | AString, PBytes bs => VS bs
  | ATensor, PArr t => VT (encode t)
  | AType, PType ty => VTP ty
  | ADtype, PDtype e => VI (Z.of_N (code e))
  | AGraph, PGraph g => VG g
  | AFloat32s, _ => VFs (map (fun x => opt_default 0 (float_item x)) (opt_default [] (items_of v)))
  | AInt64s, _ => VIs (map (fun x => opt_default 0%Z (int_item x)) (opt_default [] (items_of v)))
  | AStrings, _ => VSs (map (fun x => opt_default [] (str_item x)) (opt_default [] (items_of v)))
  | ATensors, _ => VTs (map (fun x => opt_default (mkP 0 [] (DRaw [])) (tensor_item true x)) (opt_default [] (items_of v)))
  | _, _ => VI 0
  end.

(* inputs on which the model speaks *)
Definition modelled (k : akind) (v : pyval) : bool :=
  match k with
  | AFloat32s | AInt64s | AStrings | ATensors =>
      match as_iter v with
      | IUnmodelled => false
      | IItems l => match k with AFloat32s | AInt64s => negb (existsb is_arr l) | _ => true end
      | INotIterable => true
      end
  | _ => true
  end.

(* ------------------------------------------------------------------ Constant: the tensor an attribute denotes *)
(* ONNX Constant semantics per attribute: value / value_float / value_int / value_string / value_floats / ... *)
Definition attr_tensor (a : avalue) : option tensor :=
  match a with
  | VT p => decode p
  | VF b => Some (mkT F32 [] (PNum [b]))
  | VI z => Some (mkT I64 [] (PNum [wrap 64 z]))
  | VS bs => match utf8_decode bs with Some s => Some (mkT Str [] (PStr [s])) | None => None end
  | VFs l => Some (mkT F32 [len l] (PNum l))
  | VIs l => Some (mkT I64 [len l] (PNum (map (wrap 64) l)))
  | VSs l => match all_some (map utf8_decode l) with Some ss => Some (mkT Str [len ss] (PStr ss)) | None => None end
  | _ => None
  end.

(* _Constant.propagate_values: numpy conversion of the raw Python value (np.array(raw, dtype=float32/int64/str_)) *)
Definition constant_propagated (k : akind) (v : pyval) : option tensor :=
  match k, v with
  | ATensor, PArr t => Some t
  | AFloat32, _ => match float_item v with Some b => Some (mkT F32 [] (PNum [b])) | None => None end
  | AInt64, PInt z | AInt64, PNpInt z => Some (mkT I64 [] (PNum [wrap 64 z]))
  | AInt64, PBool b => Some (mkT I64 [] (PNum [if b then 1 else 0]))
  | AString, PText s => Some (mkT Str [] (PStr [s]))
  | AFloat32s, _ => match items_of v with
                    | Some l => match all_some (map float_item l) with Some x => Some (mkT F32 [len x] (PNum x)) | None => None end
                    | None => None end
  | AInt64s, _ => match items_of v with
                  | Some l => match all_some (map int_item l) with Some x => Some (mkT I64 [len x] (PNum (map (wrap 64) x))) | None => None end
                  | None => None end
  | AStrings, _ => match items_of v with
                   | Some l => match all_some (map (fun x => match x with PText s => if is_text s then Some s else None | _ => None end) l) with
                               | Some x => Some (mkT Str [len x] (PStr x)) | None => None end
                   | None => None end
  | _, _ => None
  end.

(* the Constant node of  constant(value=arr)  /  const(v, dtype) = constant(value=np.array(v, dtype)) *)
Record cnode := mkC { c_op : string; c_attrs : list aproto; c_type : option (elem * list N); c_value : option tensor }.

Definition constant_of (fixed : bool) (k : akind) (name : string) (v : pyval) : res cnode :=
  match make_attr fixed k name v with
  | Ok a => Ok (mkC "Constant" [a]
                 (match a_val a with VT p => proto_type p | other => match attr_tensor other with Some t => Some (array_type t) | None => None end end)
                 (constant_propagated k v))
  | Err e => Err e
  end.
Definition const (fixed : bool) (arr : tensor) : res cnode := constant_of fixed ATensor "value" (PArr arr).

(* ------------------------------------------------------------------ equality tests for the correspondence run *)
Definition sdim_eqb (a b : sdim) : bool :=
  match a, b with DimN x, DimN y => x =? y | DimS x, DimS y => String.eqb x y | DimU, DimU => true | _, _ => false end.
Fixpoint stype_eqb (a b : stype) : bool :=
  match a, b with
  | STensor e s, STensor e' s' => elem_eqb e e' && match s, s' with Some x, Some y => list_eqb sdim_eqb x y | None, None => true | _, _ => false end
  | SSeq x, SSeq y | SOpt x, SOpt y => stype_eqb x y
  | _, _ => false
  end.
Definition avalue_eqb (a b : avalue) : bool :=
  match a, b with
  | VF x, VF y | VG x, VG y => x =? y
  | VI x, VI y => Z.eqb x y
  | VS x, VS y | VFs x, VFs y => list_eqb N.eqb x y
  | VT x, VT y => proto_eqb x y
  | VTP x, VTP y => stype_eqb x y
  | VIs x, VIs y => list_eqb Z.eqb x y
  | VSs x, VSs y => list_eqb (list_eqb N.eqb) x y
  | VTs x, VTs y => list_eqb proto_eqb x y
  | _, _ => false
  end.
Definition err_code (e : err) : N := match e with EType => 1 | EAttribute => 2 | EValue => 3 | EUnmodelled => 9 end.
(* 0 = equal; 100 = both Ok but different; 1x = model raises x, implementation succeeded; ... *)
Definition res_eqb (a b : res aproto) : bool :=
  match a, b with
  | Ok x, Ok y => String.eqb (a_name x) (a_name y) && atype_eqb (a_type x) (a_type y) && avalue_eqb (a_val x) (a_val y)
  | Err x, Err y => err_code x =? err_code y
  | _, _ => false
  end.
