(* Inline.v — the call boundary of spox.inline (src/spox/_public.py inline / inline_inner, src/spox/_inline.py
   _Inline.infer_output_types): argument binding and the type compatibility check.  The emission side (renaming of the
   inlined graph) is in Build.v.  [bind_args] is the repaired binding (surplus positionals rejected); [bind_args_orig] the pinned
   tree's (zip truncation).  No proofs here. *)
From Coq Require Import List String Bool Arith.
From Spox Require Import Base.
Import ListNotations.
Open Scope string_scope.

Section Bind.
Variable A : Type.                       (* what is passed: a Var *)
Inductive slot := Given (a : A) | Default (name : string).      (* bound argument | the model's initializer of that name *)

Definition kwargs := list (string * A).
Fixpoint zip_pos (in_names : list string) (args : list A) : list (string * A) :=
  match in_names, args with n :: t, a :: u => (n, a) :: zip_pos t u | _, _ => [] end.

(* for name, arg in zip(in_names, args): if name in kwargs: TypeError; kwargs[name] = arg *)
Fixpoint add_positional (kw : kwargs) (pos : list (string * A)) : res kwargs :=
  match pos with
  | [] => ret kw
  | (n, a) :: t => if mem String.eqb n (map fst kw) then raise EType else add_positional (kw ++ [(n, a)])%list t
  end.

Definition bind_core (in_names defaults : list string) (args : list A) (kw : kwargs) : res (list slot) :=
  do kw1 <- add_positional kw (zip_pos in_names args) ;;
  let missing := filter (fun n => negb (mem String.eqb n (map fst kw1))) in_names in
  if negb (forallb (fun n => mem String.eqb n defaults) missing) then raise EType else
  (* set(kwargs) != set(in_names) after the defaults were added: an unknown keyword *)
  if negb (forallb (fun k => mem String.eqb k in_names) (map fst kw1)) then raise EType else
  ret (map (fun n => match lookup String.eqb n kw1 with Some a => Given a | None => Default n end) in_names).

Definition bind_args_orig := bind_core.
Definition bind_args (in_names defaults : list string) (args : list A) (kw : kwargs) : res (list slot) :=
  if Nat.ltb (List.length in_names) (List.length args) then raise EType else bind_core in_names defaults args kw.
End Bind.
Arguments Given {A}. Arguments Default {A}.

(* declared-type compatibility at the boundary: every typed argument must be compatible with the declared input type *)
Section Types.
Variable ty : Type.
Variable subtype : ty -> ty -> bool.
Definition check_inputs (declared : list ty) (given : list (option ty)) : res unit :=
  if forallb (fun dg => match snd dg with Some t => subtype t (fst dg) | None => true end) (combine declared given)
  then ret tt else raise EType.
Definition infer_output_types (declared_in : list ty) (given : list (option ty)) (declared_out : list ty) : res (list ty) :=
  do _ <- check_inputs declared_in given ;; ret declared_out.
End Types.
