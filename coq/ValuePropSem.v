(* ValuePropSem.v — the abstract DAG on which "a propagated value is what the model computes" is stated (C07).
   Nodes in construction order; every node refers to earlier entries only.  Values (abstract [content]) originate at
   Constant/initializer nodes only and are propagated through an operator only when ALL its operands carry values; what
   is propagated for output k is the backend's entry for output k (see value_right_output for why it is that entry);
   unsafe_cast copies.  [eval] is the run-time meaning of the same DAG under an input binding.  No proofs here. *)
From Coq Require Import List Arith.
Import ListNotations.

Section Sem.
  Variables opk content : Type.
  Variable opsem : opk -> list content -> list content.              (* run-time meaning of one operator application *)
  Variable backend : opk -> list content -> list (option content).   (* what survives of the backend's answer, per output:
                                                                        None = exception, missing key, failed conversion or check *)
  Variable dflt : content.

  Inductive sstep :=
  | SArg                                            (* model input *)
  | SSrc (c : content)                              (* Constant / initializer *)
  | SOp (o : opk) (args : list nat) (nout : nat)    (* operator (standard node or inlined model) with nout outputs *)
  | SCast (arg : nat).                              (* unsafe_cast *)

  Fixpoint all_some (l : list (option content)) : option (list content) :=
    match l with
    | [] => Some []
    | Some c :: t => match all_some t with Some cs => Some (c :: cs) | None => None end
    | None :: _ => None
    end.

  (* construction: which entries carry which propagated content *)
  Fixpoint prop_run (prog : list sstep) (env : list (option content)) : list (option content) :=
    match prog with
    | [] => env
    | SArg :: r => prop_run r (env ++ [None])
    | SSrc c :: r => prop_run r (env ++ [Some c])
    | SCast a :: r => prop_run r (env ++ [nth a env None])
    | SOp o args n :: r =>
        let outs := match all_some (map (fun a => nth a env None) args) with
                    | Some cs => map (fun k => nth k (backend o cs) None) (seq 0 n)
                    | None => repeat None n
                    end in
        prop_run r (env ++ outs)
    end.

  (* execution of the built model on an input binding rho (one value per SArg, in order) *)
  Fixpoint eval (prog : list sstep) (rho : list content) (env : list content) : list content :=
    match prog with
    | [] => env
    | SArg :: r => match rho with x :: rho' => eval r rho' (env ++ [x]) | [] => eval r [] (env ++ [dflt]) end
    | SSrc c :: r => eval r rho (env ++ [c])
    | SCast a :: r => eval r rho (env ++ [nth a env dflt])
    | SOp o args n :: r =>
        eval r rho (env ++ map (fun k => nth k (opsem o (map (fun a => nth a env dflt) args)) dflt) (seq 0 n))
    end.

  Definition agree (pe : list (option content)) (e : list content) : Prop :=
    Forall2 (fun p x => forall c, p = Some c -> x = c) pe e.
End Sem.
