(* TypesFacts.v — proofs about Types.v (C13): structural equality, ONNX round trip and injectivity, exactness of the
   compatibility judgement w.r.t. runtime values, soundness of the spelling-table check. *)
From Coq Require Import List String ZArith NArith Bool Lia Arith.
From Spox Require Import Shape ShapeFacts Types.
Import ListNotations.
Open Scope Z_scope.

(* ---------------------------------------------------------------- equality is structural *)
Lemma ty_eqb_eq : forall a b, ty_eqb a b = true <-> a = b.
Proof.
  induction a as [|e s|x IH|x IH]; destruct b as [|e' s'|y|y]; simpl; split; intros H; try discriminate; try reflexivity.
  - apply andb_prop in H. destruct H as [H1 H2]. apply N.eqb_eq in H1. apply shape_eqb_eq in H2. congruence.
  - inversion H; subst. rewrite N.eqb_refl. simpl. apply shape_eqb_eq. reflexivity.
  - apply IH in H. congruence.
  - inversion H; subst. apply IH. reflexivity.
  - apply IH in H. congruence.
  - inversion H; subst. apply IH. reflexivity.
Qed.
Lemma ty_eqb_refl a : ty_eqb a a = true.
Proof. apply ty_eqb_eq. reflexivity. Qed.
Lemma ty_eqb_sym a b : ty_eqb a b = ty_eqb b a.
Proof.
  destruct (ty_eqb a b) eqn:E1, (ty_eqb b a) eqn:E2; try reflexivity.
  - apply ty_eqb_eq in E1. subst. rewrite ty_eqb_refl in E2. discriminate.
  - apply ty_eqb_eq in E2. subst. rewrite ty_eqb_refl in E1. discriminate.
Qed.

(* ---------------------------------------------------------------- subtype: basic facts *)
(* the judgement without the `self == other` shortcut *)
Fixpoint subtype0 (a b : ty) : bool :=
  match b with
  | TTop => true
  | _ =>
      match a, b with
      | TTensor e s, TTensor e' s' => N.eqb e e' && shape_le s s'
      | TSeq x, TSeq y => subtype0 x y
      | TOpt x, TOpt y => subtype0 x y
      | _, _ => false
      end
  end.

Lemma subtype0_refl : forall a, subtype0 a a = true.
Proof. induction a as [|e s|x IH|x IH]; simpl; auto. rewrite N.eqb_refl, shape_le_refl. reflexivity. Qed.

Lemma subtype_subtype0 : forall a b, subtype a b = subtype0 a b.
Proof.
  induction a as [|e s|x IH|x IH]; destruct b as [|e' s'|y|y]; simpl; try reflexivity.
  - destruct (N.eqb e e' && shape_eqb s s') eqn:E; simpl; [|reflexivity].
    apply andb_prop in E. destruct E as [E1 E2]. apply shape_eqb_eq in E2. subst. rewrite E1, shape_le_refl. reflexivity.
  - rewrite IH. destruct (ty_eqb x y) eqn:E; simpl; [|reflexivity]. apply ty_eqb_eq in E. subst. symmetry. apply subtype0_refl.
  - rewrite IH. destruct (ty_eqb x y) eqn:E; simpl; [|reflexivity]. apply ty_eqb_eq in E. subst. symmetry. apply subtype0_refl.
Qed.

Theorem subtype_refl a : subtype a a = true.
Proof. rewrite subtype_subtype0. apply subtype0_refl. Qed.

Theorem subtype_top a : subtype a TTop = true.
Proof. destruct a; reflexivity. Qed.

Theorem subtype_sym : forall a b, proper a = true -> proper b = true -> subtype a b = subtype b a.
Proof.
  intros a b. rewrite !subtype_subtype0. revert b.
  induction a as [|e s|x IH|x IH]; destruct b as [|e' s'|y|y]; simpl; intros Ha Hb; try discriminate; try reflexivity.
  - rewrite N.eqb_sym, shape_le_sym. reflexivity.
  - apply IH; assumption.
  - apply IH; assumption.
Qed.

Theorem subtype_compat : forall a b, subtype a b = true <-> compat a b.
Proof.
  intros a b. rewrite subtype_subtype0. split.
  - revert b. induction a as [|e s|x IH|x IH]; destruct b as [|e' s'|y|y]; simpl; intros H; try discriminate;
      try apply compat_top.
    + apply andb_prop in H. destruct H as [H1 H2]. apply N.eqb_eq in H1. subst. constructor. exact H2.
    + constructor. apply IH. exact H.
    + constructor. apply IH. exact H.
  - induction 1; simpl; auto.
    + destruct a; reflexivity.
    + rewrite N.eqb_refl. exact H.
Qed.

Lemma subtype_not_transitive :
  exists a b c, proper a = true /\ proper b = true /\ proper c = true /\
                subtype a b = true /\ subtype b c = true /\ subtype a c = false.
Proof. exists (TTensor 1 (Some [DC 2])), (TTensor 1 (Some [DA])), (TTensor 1 (Some [DC 3])). repeat split. Qed.

(* ---------------------------------------------------------------- ONNX round trip *)
Lemma dim_roundtrip d p : canon_dim d = true -> dim_to_onnx d = Some p -> dim_from_onnx p = d.
Proof.
  unfold dim_to_onnx. destruct d as [n|s|]; simpl; intros Hc H.
  - destruct (in_int64 n); inversion H; reflexivity.
  - destruct (String.eqb s "") eqn:E; [discriminate|]. inversion H; subst. simpl. rewrite E. reflexivity.
  - inversion H; reflexivity.
Qed.

Lemma dims_roundtrip : forall l ps, forallb canon_dim l = true -> mapo dim_to_onnx l = Some ps -> map dim_from_onnx ps = l.
Proof.
  induction l as [|d l IH]; simpl; intros ps Hc H; [inversion H; reflexivity|].
  apply andb_prop in Hc. destruct Hc as [Hd Hl].
  destruct (dim_to_onnx d) as [p|] eqn:Ed; [|discriminate].
  destruct (mapo dim_to_onnx l) as [r|] eqn:Er; [|discriminate]. inversion H; subst. simpl.
  rewrite (dim_roundtrip d p Hd Ed), (IH r Hl eq_refl). reflexivity.
Qed.

Theorem from_to_onnx : forall t p, canon_ty t = true -> to_onnx t = Some p -> from_onnx p = Some t.
Proof.
  induction t as [|e s|x IH|x IH]; simpl; intros p Hc H; try discriminate.
  - apply andb_prop in Hc. destruct Hc as [He Hs]. rewrite He in H.
    destruct s as [l|]; simpl in H.
    + destruct (mapo dim_to_onnx l) as [ps|] eqn:E; [|discriminate]. inversion H; subst. simpl. rewrite He.
      simpl. rewrite (dims_roundtrip l ps Hs E). reflexivity.
    + inversion H; subst. simpl. rewrite He. reflexivity.
  - destruct (to_onnx x) as [q|] eqn:E; [|discriminate]. inversion H; subst. simpl. rewrite (IH q Hc eq_refl). reflexivity.
  - destruct (to_onnx x) as [q|] eqn:E; [|discriminate]. inversion H; subst. simpl. rewrite (IH q Hc eq_refl). reflexivity.
Qed.

Theorem to_onnx_injective a b p : canon_ty a = true -> canon_ty b = true ->
  to_onnx a = Some p -> to_onnx b = Some p -> a = b.
Proof.
  intros Ha Hb H1 H2. apply (from_to_onnx a p Ha) in H1. apply (from_to_onnx b p Hb) in H2. congruence.
Qed.

(* when does to_onnx succeed: an ONNX type (no Type() inside) whose constant dimensions fit int64 *)
Definition fits_dim (d : dim) : bool := match d with DC n => in_int64 n | _ => true end.
Fixpoint fits (t : ty) : bool :=
  match t with
  | TTop => true
  | TTensor _ s => match s with None => true | Some l => forallb fits_dim l end
  | TSeq x => fits x | TOpt x => fits x
  end.

Lemma dims_to_onnx_total : forall l, forallb fits_dim l = true -> exists ps, mapo dim_to_onnx l = Some ps.
Proof.
  induction l as [|d l IH]; simpl; intros H; [eexists; reflexivity|].
  apply andb_prop in H. destruct H as [Hd Hl]. destruct (IH Hl) as [ps Hps]. rewrite Hps.
  unfold dim_to_onnx. destruct d as [n|s|]; simpl in *.
  - rewrite Hd. eexists; reflexivity.
  - destruct (String.eqb s ""); eexists; reflexivity.
  - eexists; reflexivity.
Qed.

Theorem to_onnx_total : forall t, proper t = true -> canon_ty t = true -> fits t = true -> exists p, to_onnx t = Some p.
Proof.
  induction t as [|e s|x IH|x IH]; simpl; intros Hp Hc Hf; try discriminate.
  - apply andb_prop in Hc. destruct Hc as [He Hs]. rewrite He. destruct s as [l|]; simpl.
    + destruct (dims_to_onnx_total l Hf) as [ps Hps]. rewrite Hps. eexists; reflexivity.
    + eexists; reflexivity.
  - destruct (IH Hp Hc Hf) as [p Hp']. rewrite Hp'. eexists; reflexivity.
  - destruct (IH Hp Hc Hf) as [p Hp']. rewrite Hp'. eexists; reflexivity.
Qed.

Theorem to_onnx_refuses_top : forall t, proper t = false -> to_onnx t = None.
Proof.
  induction t as [|e s|x IH|x IH]; simpl; intros H; try discriminate; try reflexivity.
  - rewrite (IH H). reflexivity.
  - rewrite (IH H). reflexivity.
Qed.

Lemma dim_from_onnx_canon p : canon_dim (dim_from_onnx p) = true.
Proof. destruct p; unfold dim_from_onnx; apply dim_of_simple_canon. Qed.

Theorem from_onnx_canonical : forall p t, from_onnx p = Some t -> canon_ty t = true /\ proper t = true.
Proof.
  induction p as [|e s|q IH|q IH]; simpl; intros t H; try discriminate.
  - destruct (defined_elem e) eqn:He; [|discriminate]. inversion H; subst. simpl. rewrite He. simpl. split; [|reflexivity].
    clear H. destruct s as [l|]; simpl; [|reflexivity]. induction l as [|d l IHl]; simpl; [reflexivity|].
    rewrite dim_from_onnx_canon. exact IHl.
  - destruct (from_onnx q) as [u|]; [|discriminate]. inversion H; subst. simpl. apply IH. reflexivity.
  - destruct (from_onnx q) as [u|]; [|discriminate]. inversion H; subst. simpl. apply IH. reflexivity.
Qed.

Theorem from_onnx_refuses_undefined e s : defined_elem e = false -> from_onnx (PTensor e s) = None.
Proof. intros H. simpl. rewrite H. reflexivity. Qed.

Theorem mk_tensor_canonical e s t : mk_tensor e s = Some t -> canon_ty t = true /\ proper t = true.
Proof.
  unfold mk_tensor. destruct (defined_elem e) eqn:He; [|discriminate]. intros H. inversion H; subst. simpl.
  rewrite He, shape_of_simple_canon. split; reflexivity.
Qed.

Theorem mk_tensor_refuses_undefined e s : defined_elem e = false -> mk_tensor e s = None.
Proof. unfold mk_tensor. intros H. rewrite H. reflexivity. Qed.

(* '' and None spell the same dimension *)
Lemma mk_tensor_empty_label e l1 l2 :
  mk_tensor e (Some (l1 ++ SStr "" :: l2)%list) = mk_tensor e (Some (l1 ++ SNone :: l2)%list).
Proof. unfold mk_tensor, shape_of_simple. simpl. rewrite !map_app. reflexivity. Qed.

(* ---------------------------------------------------------------- compatibility is exact *)
Fixpoint inh (t : ty) : value :=
  match t with
  | TTop => VTensor 1 []
  | TTensor e s => VTensor e (inh_shape s)
  | TSeq x => VSeq [inh x]
  | TOpt x => VOpt (Some (inh x))
  end.
Fixpoint witness (a b : ty) : value :=
  match a, b with
  | TTensor e s, TTensor _ s' => VTensor e (meet_shape s s')
  | TSeq x, TSeq y => VSeq [witness x y]
  | TOpt x, TOpt y => VOpt (Some (witness x y))
  | _, _ => inh a
  end.

Lemma inh_ok : forall t, wf_ty t = true -> populated (inh t) /\ conforms (inh t) t.
Proof.
  induction t as [|e s|x IH|x IH]; simpl; intros H.
  - split; exact I.
  - split; [exact I|]. split; [reflexivity|].
    destruct (meet_shape_conf s None H eq_refl) as [C _]; [destruct s; reflexivity|exact C].
  - destruct (IH H) as [P C]. split; [split; [discriminate|split; [exact P|exact I]]|]. constructor; [exact C|constructor].
  - destruct (IH H) as [P C]. split; assumption.
Qed.

Lemma witness_ok : forall a b, wf_ty a = true -> wf_ty b = true -> subtype0 a b = true ->
  populated (witness a b) /\ conforms (witness a b) a /\ conforms (witness a b) b.
Proof.
  induction a as [|e s|x IH|x IH]; destruct b as [|e' s'|y|y]; intros Ha Hb H; try discriminate H;
    try (destruct (inh_ok _ Ha) as [P C]; split; [exact P|split; [exact C|exact I]]).
  - simpl in *. apply andb_prop in H. destruct H as [H1 H2]. apply N.eqb_eq in H1. subst.
    destruct (meet_shape_conf s s' Ha Hb H2) as [C1 C2]. split; [exact I|]. split; split; auto.
  - simpl in *. destruct (IH y Ha Hb H) as [P [C1 C2]].
    split; [split; [discriminate|split; [exact P|exact I]]|]. split; constructor; auto.
  - simpl in *. destruct (IH y Ha Hb H) as [P [C1 C2]]. split; [exact P|]. split; assumption.
Qed.

Theorem subtype_sound a b : wf_ty a = true -> wf_ty b = true -> subtype a b = true ->
  exists v, populated v /\ conforms v a /\ conforms v b.
Proof. intros Ha Hb H. rewrite subtype_subtype0 in H. exists (witness a b). apply witness_ok; assumption. Qed.

Lemma common_subtype0 : forall a b v, proper a = true -> populated v -> conforms v a -> conforms v b -> subtype0 a b = true.
Proof.
  induction a as [|e s|x IH|x IH]; intros b v Hp Pv Ca Cb; try discriminate Hp.
  - destruct v as [e0 sh|l|o]; simpl in Ca; try contradiction. destruct Ca as [E Cs]. subst.
    destruct b as [|e' s'|y|y]; simpl in *; try contradiction; try reflexivity.
    destruct Cb as [E Cs']. subst. rewrite N.eqb_refl. simpl. eapply conf_common_shape_le; eassumption.
  - destruct v as [e0 sh|l|o]; simpl in Ca; try contradiction.
    destruct b as [|e' s'|y|y]; simpl in Cb; try contradiction; try reflexivity.
    simpl in Pv. destruct Pv as [Hne Pl]. destruct l as [|u l]; [congruence|]. destruct Pl as [Pu _].
    inversion Ca; inversion Cb; subst. simpl. eapply IH; eassumption.
  - destruct v as [e0 sh|l|o]; simpl in Ca; try contradiction.
    destruct b as [|e' s'|y|y]; simpl in Cb; try contradiction; try reflexivity.
    destruct o as [u|]; simpl in Pv; [|contradiction]. simpl. eapply IH; eassumption.
Qed.

Theorem subtype_complete a b : proper a = true ->
  (exists v, populated v /\ conforms v a /\ conforms v b) -> subtype a b = true.
Proof. intros Hp [v [P [Ca Cb]]]. rewrite subtype_subtype0. eapply common_subtype0; eassumption. Qed.

Theorem subtype_exact a b : proper a = true -> wf_ty a = true -> wf_ty b = true ->
  (subtype a b = true <-> exists v, populated v /\ conforms v a /\ conforms v b).
Proof.
  intros Hp Ha Hb. split; [apply subtype_sound; assumption|apply subtype_complete; assumption].
Qed.

(* Type() on the left: the judgement says no although every value is common *)
Theorem subtype_top_left_refuted :
  exists a b, wf_ty a = true /\ wf_ty b = true /\ subtype a b = false /\
              exists v, populated v /\ conforms v a /\ conforms v b.
Proof.
  exists TTop, (TTensor 1 None). repeat split. exists (VTensor 1 []). repeat split.
Qed.

(* negative "constants": accepted by the constructor, denote no value, still judged compatible *)
Theorem subtype_negative_dim_refuted :
  exists a b, proper a = true /\ proper b = true /\ subtype a b = true /\
              ~ exists v, populated v /\ conforms v a /\ conforms v b.
Proof.
  exists (TTensor 1 (Some [DC (-1)])), (TTensor 1 (Some [DA])). repeat split.
  intros [v [_ [C _]]]. destruct v as [e sh|l|o]; simpl in C; try contradiction.
  destruct C as [_ C]. inversion C as [|n d sh' l' Hn Hl]; subst. simpl in Hn. lia.
Qed.

(* without "populated" every two sequence types (and every two optional types) share a value *)
Theorem unpopulated_common_value a b : conforms (VSeq []) (TSeq a) /\ conforms (VSeq []) (TSeq b) /\
                                       conforms (VOpt None) (TOpt a) /\ conforms (VOpt None) (TOpt b).
Proof. simpl. repeat split; constructor. Qed.

(* the same name twice: if a repeated label were read as "equal sizes", the judgement would not be exact *)
Definition conf_strict_2 (sh : list N) (l : list dim) : Prop :=
  Forall2 conf sh l /\ match l, sh with [DN s; DN t], [n; m] => s = t -> n = m | _, _ => True end.
Theorem subtype_repeated_label_refuted :
  exists s s', shape_le (Some s) (Some s') = true /\ wf_shape (Some s) = true /\ wf_shape (Some s') = true /\
               ~ exists sh, conf_strict_2 sh s /\ conf_strict_2 sh s'.
Proof.
  exists [DN "N"; DN "N"]%string, [DC 2; DC 3]. repeat split.
  intros [sh [[C1 E1] [C2 _]]].
  inversion C2 as [|n d sh1 l1 Hn Hl]; subst. inversion Hl as [|m d' sh2 l2 Hm Hl2]; subst. inversion Hl2; subst.
  simpl in *. specialize (E1 eq_refl). lia.
Qed.

Example subtype_exact_hyps_satisfiable :
  let a := TSeq (TTensor 1 (Some [DC 2; DN "N"%string; DA])) in
  let b := TSeq (TTensor 1 (Some [DA; DC 3; DN "M"%string])) in
  proper a = true /\ wf_ty a = true /\ wf_ty b = true /\ subtype a b = true /\
  witness a b = VSeq [VTensor 1 [2; 3; 1]%N].
Proof. repeat split. Qed.

(* ---------------------------------------------------------------- spelling table *)
Theorem spell_check_sound canon tbl : spell_check canon tbl = true -> spellings_canonical canon tbl.
Proof.
  unfold spell_check. intros H. rewrite forallb_forall in H.
  assert (A : forall r c, In r tbl -> sp_onnx r = Some c ->
              exists st, sp_result r = Accepted st c /\ lookupN c canon = Some st /\ defined_elem c = true).
  { intros r c Hr Hc. specialize (H r Hr). unfold spell_ok in H. rewrite Hc in H.
    destruct (sp_result r) as [|st c']; [discriminate|].
    apply andb_prop in H. destruct H as [H H3]. apply andb_prop in H. destruct H as [H1 H2].
    apply N.eqb_eq in H1. subst c'.
    destruct (lookupN c canon) as [st'|] eqn:E; [|discriminate]. apply N.eqb_eq in H3. subst.
    exists st'. repeat split; assumption. }
  split; [|split].
  - intros r Hr Hn. specialize (H r Hr). unfold spell_ok in H. rewrite Hn in H.
    destruct (sp_result r); [reflexivity|discriminate].
  - exact A.
  - intros r1 r2 st1 st2 c H1 H2 E1 E2.
    assert (O1 : sp_onnx r1 = Some c).
    { pose proof (H r1 H1) as K. unfold spell_ok in K. rewrite E1 in K. destruct (sp_onnx r1) as [c0|]; [|discriminate].
      apply andb_prop in K. destruct K as [K _]. apply andb_prop in K. destruct K as [K _]. apply N.eqb_eq in K. congruence. }
    assert (O2 : sp_onnx r2 = Some c).
    { pose proof (H r2 H2) as K. unfold spell_ok in K. rewrite E2 in K. destruct (sp_onnx r2) as [c0|]; [|discriminate].
      apply andb_prop in K. destruct K as [K _]. apply andb_prop in K. destruct K as [K _]. apply N.eqb_eq in K. congruence. }
    destruct (A r1 c H1 O1) as [s1 [R1 [L1 _]]]. destruct (A r2 c H2 O2) as [s2 [R2 [L2 _]]]. congruence.
Qed.

(* the check is not vacuous: a table in the state of the tree before F3 is rejected *)
Example spell_check_rejects_alias :
  spell_check [(7%N, 0%N)] [mkrow "int64" (Some 7%N) (Accepted 0 7); mkrow "longlong" (Some 7%N) (Accepted 1 7)] = false.
Proof. reflexivity. Qed.
Example spell_check_accepts :
  spell_check [(7%N, 0%N)] [mkrow "int64" (Some 7%N) (Accepted 0 7); mkrow "longlong" (Some 7%N) (Accepted 0 7);
                            mkrow "object" None Refused] = true.
Proof. reflexivity. Qed.

Theorem undefined_elem_refused e : defined_elem e = false ->
  (forall s, mk_tensor e s = None) /\ (forall s, from_onnx (PTensor e s) = None).
Proof. intros H. split; intros s; [exact (mk_tensor_refuses_undefined e s H)|exact (from_onnx_refuses_undefined e s H)]. Qed.

Example broadcast_example :
  broadcast (Some [DC 3; DC 1; DN "N"%string]) (Some [DC 4; DA]) = BShape (Some [DC 3; DC 4; DA]) /\
  conf_shape [3; 1; 5]%N (Some [DC 3; DC 1; DN "N"%string]) /\ conf_shape [4; 5]%N (Some [DC 4; DA]) /\
  np_broadcast [3; 1; 5]%N [4; 5]%N = Some [3; 4; 5]%N /\
  broadcast (Some [DC 2; DA]) (Some [DC 3; DC 1]) = BRaise.
Proof. repeat split; repeat constructor. Qed.

(* ---------------------------------------------------------------- proto -> type -> proto *)
Lemma pdim_roundtrip d : pfits_dim d = true -> dim_to_onnx (dim_from_onnx d) = Some (norm_pdim d).
Proof.
  destruct d as [n|s|]; simpl; intros H; unfold dim_to_onnx; simpl.
  - rewrite H. reflexivity.
  - destruct (String.eqb s "") eqn:E; simpl; [reflexivity|]. rewrite E. reflexivity.
  - reflexivity.
Qed.

Lemma pdims_roundtrip : forall l, forallb pfits_dim l = true ->
  mapo dim_to_onnx (map dim_from_onnx l) = Some (map norm_pdim l).
Proof.
  induction l as [|d l IH]; simpl; intros H; [reflexivity|].
  apply andb_prop in H. destruct H as [Hd Hl]. rewrite (pdim_roundtrip d Hd), (IH Hl). reflexivity.
Qed.

Theorem to_from_onnx : forall p t, pfits p = true -> from_onnx p = Some t -> to_onnx t = Some (norm_proto p).
Proof.
  induction p as [|e s|q IH|q IH]; simpl; intros t Hf H; try discriminate.
  - destruct (defined_elem e) eqn:He; [|discriminate]. inversion H; subst. simpl. rewrite He.
    destruct s as [l|]; simpl; [|reflexivity]. rewrite (pdims_roundtrip l Hf). reflexivity.
  - destruct (from_onnx q) as [u|] eqn:E; [|discriminate]. inversion H; subst. simpl. rewrite (IH u Hf eq_refl). reflexivity.
  - destruct (from_onnx q) as [u|] eqn:E; [|discriminate]. inversion H; subst. simpl. rewrite (IH u Hf eq_refl). reflexivity.
Qed.

(* ---------------------------------------------------------------- labels do not matter for compatibility *)
Lemma dim_le_strip_r x y : dim_le x (strip_dim y) = dim_le x y.
Proof. destruct x, y; reflexivity. Qed.
Lemma dim_le_strip_l x y : dim_le (strip_dim x) y = dim_le x y.
Proof. destruct x, y; reflexivity. Qed.

Lemma all2_strip_r : forall x y, all2 dim_le x (map strip_dim y) = all2 dim_le x y.
Proof. induction x as [|a x IH]; destruct y as [|b y]; simpl; try reflexivity. now rewrite dim_le_strip_r, IH. Qed.
Lemma all2_strip_l : forall x y, all2 dim_le (map strip_dim x) y = all2 dim_le x y.
Proof. induction x as [|a x IH]; destruct y as [|b y]; simpl; try reflexivity. now rewrite dim_le_strip_l, IH. Qed.

Lemma shape_le_strip_r s s' : shape_le s (option_map (map strip_dim) s') = shape_le s s'.
Proof. destruct s as [x|], s' as [y|]; simpl; try reflexivity. now rewrite map_length, all2_strip_r. Qed.
Lemma shape_le_strip_l s s' : shape_le (option_map (map strip_dim) s) s' = shape_le s s'.
Proof. destruct s as [x|], s' as [y|]; simpl; try reflexivity. now rewrite map_length, all2_strip_l. Qed.

Theorem subtype_strip_r : forall a b, subtype a (strip_ty b) = subtype a b.
Proof.
  intros a b. rewrite !subtype_subtype0. revert b.
  induction a as [|e s|x IH|x IH]; destruct b as [|e' s'|y|y]; simpl; try reflexivity; try apply IH.
  now rewrite shape_le_strip_r.
Qed.
Theorem subtype_strip_l : forall a b, subtype (strip_ty a) b = subtype a b.
Proof.
  intros a b. rewrite !subtype_subtype0. revert b.
  induction a as [|e s|x IH|x IH]; destruct b as [|e' s'|y|y]; simpl; try reflexivity; try apply IH.
  now rewrite shape_le_strip_l.
Qed.
Theorem subtype_strip a b : subtype a (strip_ty b) = subtype a b /\ subtype (strip_ty a) b = subtype a b.
Proof. split; [apply subtype_strip_r|apply subtype_strip_l]. Qed.

(* the state of the tree before F3 (alias scalar type stored verbatim) violates spelling canonicity: witness table *)
Theorem spelling_alias_refuted :
  exists canon tbl,
    (forall r, In r tbl -> exists st c, sp_result r = Accepted st c /\ sp_onnx r = Some c) /\   (* both spellings accepted, same code *)
    ~ spellings_canonical canon tbl.
Proof.
  exists [(7%N, 0%N)], [mkrow "int64" (Some 7%N) (Accepted 0 7); mkrow "longlong" (Some 7%N) (Accepted 1 7)].
  split.
  - intros r [H|[H|[]]]; subst; simpl; eauto.
  - intros [_ [_ H]].
    specialize (H (mkrow "int64" (Some 7%N) (Accepted 0 7)) (mkrow "longlong" (Some 7%N) (Accepted 1 7)) 0%N 1%N 7%N).
    assert (E : 0%N = 1%N) by (apply H; simpl; auto). discriminate.
Qed.
