(* ValuePropProgFacts.v — proofs about ValuePropProg.v: downstream effect of detected faults, backend NONE (C15);
   input independence (C07). *)
From Coq Require Import List Bool String Arith Lia.
From Spox Require Import ValueProp ValuePropFacts ValuePropProg.
Import ListNotations.
Open Scope string_scope.
Open Scope list_scope.

(* ------------------------------------------------------------------------------------------------ the order *)
Lemma dim_ge_refl d : dim_ge d d = true.
Proof. destruct d; cbn; [apply Nat.eqb_refl|reflexivity]. Qed.
Lemma forallb2_refl {A} (f : A -> A -> bool) l : (forall a, f a a = true) -> forallb2 f l l = true.
Proof. intros H. induction l as [|a l IH]; cbn; [reflexivity|]. rewrite H, IH. reflexivity. Qed.
Lemma shape_ge_refl s : shape_ge s s = true.
Proof. destruct s as [x|]; cbn; [apply forallb2_refl, dim_ge_refl|reflexivity]. Qed.
Lemma ty_ge_refl t : ty_ge t t = true.
Proof. induction t as [e s|t IH|t IH]; cbn; [|exact IH|exact IH]. rewrite elem_beq_refl, shape_ge_refl. reflexivity. Qed.
Lemma oty_ge_refl t : oty_ge t t = true.
Proof. destruct t as [t|]; cbn; [apply ty_ge_refl|reflexivity]. Qed.

(* ------------------------------------------------------------------------------------------------ list facts *)
Lemma Forall2_nth_default {A B} (R : A -> B -> Prop) l l' da db k :
  R da db -> Forall2 R l l' -> R (nth k l da) (nth k l' db).
Proof.
  intros Hd H. revert k. induction H as [|a b l l' Hab _ IH]; intros [|k]; cbn; try exact Hd; [exact Hab|apply IH].
Qed.

Lemma map_eq_pointwise {A B} (f g : A -> B) l : map f l = map g l -> forall a, In a l -> f a = g a.
Proof.
  induction l as [|x l IH]; cbn; intros H a Ha; [destruct Ha|]. inversion H. destruct Ha as [<-|Ha]; [assumption|apply IH; assumption].
Qed.

Section ProgFacts.
  Variable opk : Type.
  Variable infer : opk -> list vstate -> list (option ty).
  Variable bk : nat -> list vstate -> backend_result.
  Notation step := (step opk).
  Notation vle := ValuePropProg.vle.

  Lemma vle_refl s : vle s s.
  Proof. left. reflexivity. Qed.

  Lemma get_vle env env' j : Forall2 vle env env' -> vle (get env j) (get env' j).
  Proof. intros H. unfold get. apply Forall2_nth_default; [apply vle_refl|exact H]. Qed.

  Lemma ins_vle (st : step) env env' : Forall2 vle env env' -> Forall2 vle (ins_of opk st env) (ins_of opk st env').
  Proof.
    intros H. unfold ins_of. induction (s_args opk st) as [|a l IH]; cbn; constructor; [apply get_vle; exact H|exact IH].
  Qed.

  Lemma vle_dichotomy l l' : Forall2 vle l l' -> l' = l \/ exists s', In s' l' /\ snd s' = None.
  Proof.
    induction 1 as [|s s' l l' Hs _ IH]; [left; reflexivity|].
    destruct Hs as [->|[Hn _]]; [|right; exists s'; split; [left; reflexivity|exact Hn]].
    destruct IH as [->|[x [Hx Hn]]]; [left; reflexivity|right; exists x; split; [right; exact Hx|exact Hn]].
  Qed.

  (* outputs of mk_node: fresh, typed by infer *)
  Lemma mk_outs_fresh tys k outs o : In o (mk_outs tys k outs) -> o_type0 o = None /\ o_val0 o = None.
  Proof.
    revert k. induction outs as [|[f b] r IH]; intros k H; cbn in H; [destruct H|].
    destruct H as [<-|H]; [split; reflexivity|apply (IH _ H)].
  Qed.
  Lemma mk_outs_types tys tys' k outs :
    (forall j, oty_ge (nth j tys None) (nth j tys' None) = true) ->
    Forall2 (fun t t' => oty_ge t t' = true) (map out_type (mk_outs tys k outs)) (map out_type (mk_outs tys' k outs)).
  Proof.
    intros H. revert k. induction outs as [|[f b] r IH]; intros k; cbn; constructor; [apply H|apply IH].
  Qed.

  (* a construction whose propagate step yields nothing only types its outputs *)
  Lemma construct_no_vals c b n r :
    propagate c b n r = Ok [] -> construct c b n r = Ok (map (fun o => (o_field o, out_type o, o_val0 o, false)) (n_out n)).
  Proof.
    intros Hp. unfold construct. rewrite Hp. cbn [bind]. induction (n_out n) as [|o os IH]; [reflexivity|].
    cbn [mapM map]. rewrite attach_no_vals by (right; exact I). rewrite IH. reflexivity.
  Qed.

  Lemma step_types c b (st : step) env r :
    s_cast opk st = None ->
    map fst (step_outs opk infer c b st env r) = map out_type (n_out (mk_node opk infer st env)).
  Proof.
    intros Hc. unfold step_outs. rewrite Hc. destruct (construct c b (mk_node opk infer st env) r) as [outs|e] eqn:H.
    - apply construct_types in H. unfold out_types, typing in H. rewrite map_map.
      assert (forall (l : list (string * option ty * option pval * bool)) (m : list outvar),
                 map (fun x => match x with (f, t, _, _) => (f, t) end) l = map (fun o => (o_field o, out_type o)) m ->
                 map (fun x => fst (match x with (_, t, v, _) => (t, v) end)) l = map out_type m) as G.
      { induction l as [|[[[f t] v] w] l IH]; intros [|o m] E; cbn in *; try discriminate; [reflexivity|].
        inversion E. f_equal. apply IH. assumption. }
      apply G. exact H.
    - unfold typed_only. rewrite map_map. reflexivity.
  Qed.

  Lemma gate_closed (st : step) env :
    (exists a, In a (s_args opk st) /\ snd (get env (snd a)) = None) -> gate_open (mk_node opk infer st env) = false.
  Proof.
    intros [a [Ha Hn]]. unfold gate_open, mk_node. cbn [n_in]. destruct (forallb _ _) eqn:E; [|reflexivity].
    rewrite forallb_forall in E.
    specialize (E _ (in_map (fun a => let s := get env (snd a) in mkIn (fst a) (fst s) (is_some (snd s)) None) _ _ Ha)).
    cbn in E. rewrite Hn in E. cbn in E. rewrite andb_false_r in E. discriminate.
  Qed.

  Lemma step_no_values c b (st : step) env r :
    wf_step opk st -> s_cast opk st = None ->
    (exists a, In a (s_args opk st) /\ snd (get env (snd a)) = None) ->
    step_outs opk infer c b st env r = typed_only (mk_node opk infer st env).
  Proof.
    intros [Hwf _] Hc Hex. unfold step_outs. rewrite Hc.
    assert (propagate c b (mk_node opk infer st env) r = Ok []) as Hp.
    { unfold propagate. pose proof (gate_closed st env Hex) as Hg. cbn [n_kind mk_node].
      destruct (s_kind opk st) as [| |[v|]|] eqn:K; try reflexivity.
      - destruct b; try reflexivity; cbn [n_kind mk_node] in *; rewrite Hg; reflexivity.
      - rewrite Hg. reflexivity.
      - destruct Hex as [a [Ha _]]. rewrite Hwf in Ha. destruct Ha. }
    rewrite (construct_no_vals _ _ _ _ Hp). unfold typed_only. rewrite map_map. reflexivity.
  Qed.

  Lemma typed_only_no_values (st : step) env s : In s (typed_only (mk_node opk infer st env)) -> snd s = None.
  Proof.
    unfold typed_only. intros H. apply in_map_iff in H. destruct H as [o [<- Ho]]. cbn [snd].
    apply (mk_outs_fresh _ _ _ _ Ho).
  Qed.

  (* outputs with related types, none of the second carrying a value, are related *)
  Lemma vle_of_types (l l' : list vstate) :
    Forall2 (fun t t' => oty_ge t t' = true) (map fst l) (map fst l') -> (forall s, In s l' -> snd s = None) ->
    Forall2 vle l l'.
  Proof.
    revert l'. induction l as [|s l IH]; intros [|s' l'] H Hn; cbn in H; inversion H; subst; constructor.
    - right. split; [apply Hn; left; reflexivity|assumption].
    - apply IH; [assumption|intros x Hx; apply Hn; right; exact Hx].
  Qed.

  Section Mono.
    (* HYPOTHESIS "infer monotone in known constant operands": if some operands lose their value and/or get a more
       permissive type (and the others are unchanged), the inferred output types are equal or more permissive. *)
    Hypothesis infer_monotone_in_known_constants :
      forall o ins ins', Forall2 vle ins ins' ->
      Forall2 (fun t t' => oty_ge t t' = true) (infer o ins) (infer o ins').

    Lemma step_vle_gen c b r c' b' r' (st : step) env env' :
      wf_step opk st -> Forall2 vle env env' ->
      (s_cast opk st = None -> ins_of opk st env' = ins_of opk st env ->
         step_outs opk infer c' b' st env r' = step_outs opk infer c b st env r \/
         (forall s, In s (step_outs opk infer c' b' st env r') -> snd s = None)) ->
      Forall2 vle (step_outs opk infer c b st env r) (step_outs opk infer c' b' st env' r').
    Proof.
      intros Hwf Henv H. pose proof (ins_vle st env env' Henv) as Hins.
      destruct (s_cast opk st) as [t|] eqn:Hc.
      - unfold step_outs. rewrite Hc. constructor; [|constructor].
        destruct Hins as [|s s' l l' Hs _]; [left; reflexivity|]. cbn [snd].
        destruct Hs as [->|[Hn _]]; [left; reflexivity|]. right. cbn [fst snd]. split; [exact Hn|apply oty_ge_refl].
      - specialize (H eq_refl). destruct (vle_dichotomy _ _ Hins) as [Heq|[s' [Hs' Hn]]].
        + (* identical operands: the same node *)
          assert (mk_node opk infer st env' = mk_node opk infer st env) as Hnode.
          { unfold mk_node. rewrite Heq. f_equal. apply map_ext_in. intros a Ha.
            unfold ins_of in Heq. rewrite (map_eq_pointwise _ _ _ Heq a Ha). reflexivity. }
          assert (forall rr cc bb, step_outs opk infer cc bb st env' rr = step_outs opk infer cc bb st env rr) as Hso.
          { intros rr cc bb. unfold step_outs. rewrite Hc, Hnode. reflexivity. }
          rewrite Hso. destruct (H Heq) as [->|Hnone].
          * clear. induction (step_outs opk infer c b st env r); constructor; [apply vle_refl|assumption].
          * apply vle_of_types; [|exact Hnone].
            rewrite (step_types c' b' st env r' Hc), (step_types c b st env r Hc).
            clear. induction (map out_type _); constructor; [apply oty_ge_refl|assumption].
        + (* an operand lost its value: the gate is closed *)
          assert (exists a, In a (s_args opk st) /\ snd (get env' (snd a)) = None) as Hex.
          { unfold ins_of in Hs'. apply in_map_iff in Hs'. destruct Hs' as [a [<- Ha]]. exists a. split; assumption. }
          rewrite (step_no_values c' b' st env' r' Hwf Hc Hex).
          apply vle_of_types; [|apply typed_only_no_values].
          rewrite (step_types c b st env r Hc). unfold typed_only. rewrite map_map. cbn [fst].
          change (map (fun x : outvar => out_type x)) with (map out_type).
          unfold mk_node. cbn [n_out]. apply mk_outs_types. intros j.
          apply (Forall2_nth_default (fun t t' => oty_ge t t' = true)); [reflexivity|].
          apply infer_monotone_in_known_constants. exact Hins.
    Qed.

    Lemma Forall2_app' {A B} (R : A -> B -> Prop) l1 l2 m1 m2 : Forall2 R l1 m1 -> Forall2 R l2 m2 -> Forall2 R (l1 ++ l2) (m1 ++ m2).
    Proof. intros H1 H2. induction H1; cbn; [exact H2|constructor; assumption]. Qed.

    Lemma run_nofault_cons c b i (st : step) rest env :
      run opk infer bk c b (@no_fault) i (st :: rest) env =
      (let '(e, ok) := run opk infer bk c b (@no_fault) (S i) rest
                           (env ++ step_outs opk infer c b st env (bk i (ins_of opk st env))) in (e, ok)).
    Proof. cbn [run]. unfold no_fault at 1 2. cbn match. destruct (run _ _ _ _ _ _ _ _ _) as [e ok]. reflexivity. Qed.

    (* C15: a fault that is detected at its own node (nothing attached there) only ever makes types downstream more
       permissive and values disappear; nothing new and nothing different is attached anywhere. *)
    Theorem downstream_more_permissive c b fault : forall prog i env env',
      Forall (wf_step opk) prog -> Forall2 vle env env' ->
      snd (run opk infer bk c b fault i prog env') = true ->
      Forall2 vle (fst (run opk infer bk c b (@no_fault) i prog env)) (fst (run opk infer bk c b fault i prog env')).
    Proof.
      induction prog as [|st rest IH]; intros i env env' Hwf Henv Hok; [exact Henv|].
      rewrite run_nofault_cons. cbn [run] in *.
      inversion Hwf as [|? ? Hst Hrest]; subst.
      set (r := bk i (ins_of opk st env)).
      set (r' := match fault i with Some r0 => r0 | None => bk i (ins_of opk st env') end) in *.
      set (outs' := step_outs opk infer c b st env' r') in *.
      destruct (run opk infer bk c b fault (S i) rest (env' ++ outs')) as [e2 ok2] eqn:E2.
      destruct (run opk infer bk c b (@no_fault) (S i) rest (env ++ step_outs opk infer c b st env r)) as [e1 ok1] eqn:E1.
      cbn [fst snd] in *. apply andb_prop in Hok. destruct Hok as [Hdrop Hok2].
      assert (Forall2 vle (step_outs opk infer c b st env r) outs') as Hstep.
      { apply step_vle_gen; [exact Hst|exact Henv|]. intros Hc Heq. unfold r'. destruct (fault i) as [rf|] eqn:Hf.
        - right. intros s Hs. rewrite forallb_forall in Hdrop.
          assert (step_outs opk infer c b st env rf = outs') as Hsame.
          { unfold outs', r'. try rewrite Hf. unfold step_outs. rewrite Hc.
            assert (mk_node opk infer st env' = mk_node opk infer st env) as ->; [|reflexivity].
            unfold mk_node. rewrite Heq. f_equal. apply map_ext_in. intros a Ha.
            unfold ins_of in Heq. rewrite (map_eq_pointwise _ _ _ Heq a Ha). reflexivity. }
          rewrite Hsame in Hs. specialize (Hdrop s Hs). destruct (snd s); [discriminate|reflexivity].
        - left. unfold r. rewrite Heq. reflexivity. }
      specialize (IH (S i) (env ++ step_outs opk infer c b st env r) (env' ++ outs') Hrest (Forall2_app' _ _ _ _ _ Henv Hstep)).
      rewrite E1, E2 in IH. apply IH. exact Hok2.
    Qed.

    (* C15: switching propagation off (backend NONE) changes nothing but the precision of the reported types: the
       structure reaching the build is the program's own, types are equal or more permissive, values only disappear. *)
    Theorem none_backend_same_models c b : forall prog i env env',
      c_nonefix c = true -> Forall (wf_step opk) prog -> Forall2 vle env env' ->
      Forall2 vle (fst (run opk infer bk c b (@no_fault) i prog env)) (fst (run opk infer bk c BNone (@no_fault) i prog env')).
    Proof.
      intros prog i env env' Hnf. revert i env env'.
      induction prog as [|st rest IH]; intros i env env' Hwf Henv; [exact Henv|].
      rewrite !run_nofault_cons.
      inversion Hwf as [|? ? Hst Hrest]; subst.
      set (r := bk i (ins_of opk st env)). set (r' := bk i (ins_of opk st env')).
      assert (Forall2 vle (step_outs opk infer c b st env r) (step_outs opk infer c BNone st env' r')) as Hstep.
      { apply step_vle_gen; [exact Hst|exact Henv|]. intros Hc Heq.
        assert (r' = r) as -> by (unfold r, r'; rewrite Heq; reflexivity).
        unfold step_outs. rewrite Hc. set (n := mk_node opk infer st env).
        destruct (n_kind n) as [| |v|] eqn:K.
        - right. rewrite (none_backend_no_values c n r (or_introl K)). rewrite map_map. intros s Hs.
          apply in_map_iff in Hs. destruct Hs as [o [<- Ho]]. cbn [snd]. apply (mk_outs_fresh _ _ _ _ Ho).
        - right. rewrite (none_backend_no_values c n r (or_intror (conj K Hnf))). rewrite map_map. intros s Hs.
          apply in_map_iff in Hs. destruct Hs as [o [<- Ho]]. cbn [snd]. apply (mk_outs_fresh _ _ _ _ Ho).
        - left. unfold construct, propagate. rewrite K. reflexivity.
        - left. unfold construct, propagate. rewrite K. reflexivity. }
      destruct (run opk infer bk c b (@no_fault) (S i) rest (env ++ step_outs opk infer c b st env r)) as [e1 ok1] eqn:E1.
      destruct (run opk infer bk c BNone (@no_fault) (S i) rest (env' ++ step_outs opk infer c BNone st env' r')) as [e2 ok2] eqn:E2.
      specialize (IH (S i) _ _ Hrest (Forall2_app' _ _ _ _ _ Henv Hstep)). rewrite E1, E2 in IH. exact IH.
    Qed.
  End Mono.
End ProgFacts.

(* ------------------------------------------------------------------------------------------------ non-vacuity *)
(* A toy instance: operator 0 = a constant (type given by its own attribute), 1 = Mul of shape vectors, 2 = Reshape whose
   output shape is known only when the shape operand carries a value. *)
Module Toy.
  Definition t_sh := Tensor EI64 (Some [DConst 2]).
  Definition t_data := Tensor EF32 (Some [DConst 6]).
  Definition infer (o : nat) (ins : list vstate) : list (option ty) :=
    match o with
    | 0 => [Some t_data]
    | 1 => [Some t_sh]
    | 2 => [Some t_sh]
    | _ => match ins with
           | [_; (_, Some _)] => [Some (Tensor EF32 (Some [DConst 3; DConst 2]))]
           | _ => [Some (Tensor EF32 (Some [DUnk; DUnk]))]
           end
    end.
  Definition bk (i : nat) (ins : list vstate) : backend_result :=
    match i with
    | 2 => BDict [("C", PArr EI64 [2])]
    | _ => BDict [("reshaped", PArr EF32 [3; 2])]
    end.
  Definition prog : list (step nat) :=
    [ mkStep nat 0 (KSource (Some (VArr EF32 [6]))) false None [] false [("output", "output")];
      mkStep nat 1 (KSource (Some (VArr EI64 [2]))) false None [] false [("output", "output")];
      mkStep nat 2 KStandard false None [("A", 1); ("B", 1)] false [("C", "C")];
      mkStep nat 3 KStandard false None [("data", 0); ("shape", 2)] false [("reshaped", "reshaped")] ].
  Definition fault (i : nat) : option backend_result :=
    match i with 2 => Some (BDict [("C", PList [PArr EI64 [2]; PArr EI64 [2]])]) | _ => None end.

  Lemma infer_mono o ins ins' : Forall2 vle ins ins' -> Forall2 (fun t t' => oty_ge t t' = true) (infer o ins) (infer o ins').
  Proof.
    intros H. destruct o as [|[|[|o]]]; cbn; try (constructor; [reflexivity|constructor]).
    destruct H as [|s1 s1' l l' H1 H]; [constructor; [reflexivity|constructor]|].
    destruct H as [|s2 s2' l l' H2 H]; [constructor; [reflexivity|constructor]|].
    destruct H as [|s3 s3' l l' H3 H].
    - destruct H2 as [->|[Hn _]].
      + destruct s2 as [t [v|]]; constructor; try reflexivity; constructor.
      + destruct s2' as [t' v']. cbn in Hn. subst v'. destruct s2 as [t [v|]]; constructor; try reflexivity; constructor.
    - destruct s2 as [t [v|]], s2' as [t' [v'|]]; constructor; try reflexivity; constructor.
  Qed.

  Example fault_free_run :
    fst (run nat infer bk cfg_fixed BRef (@no_fault) 0 prog []) =
    [(Some t_data, Some (VArr EF32 [6])); (Some t_sh, Some (VArr EI64 [2])); (Some t_sh, Some (VArr EI64 [2]));
     (Some (Tensor EF32 (Some [DConst 3; DConst 2])), Some (VArr EF32 [3; 2]))].
  Proof. vm_compute. reflexivity. Qed.
  Example faulty_run :
    run nat infer bk cfg_fixed BRef fault 0 prog [] =
    ([(Some t_data, Some (VArr EF32 [6])); (Some t_sh, Some (VArr EI64 [2])); (Some t_sh, None);
      (Some (Tensor EF32 (Some [DUnk; DUnk])), None)], true).
  Proof. vm_compute. reflexivity. Qed.
  Example wf : Forall (wf_step nat) prog.
  Proof. repeat constructor; cbn; try reflexivity; try discriminate; intros; try discriminate; congruence. Qed.
  Example downstream_instance :
    Forall2 vle (fst (run nat infer bk cfg_fixed BRef (@no_fault) 0 prog [])) (fst (run nat infer bk cfg_fixed BRef fault 0 prog [])).
  Proof. apply (downstream_more_permissive nat infer bk infer_mono); [exact wf|constructor|vm_compute; reflexivity]. Qed.
End Toy.
