(* ReachFacts.v — reachability and the builder's DFS: the postorder lists ONLY nodes reachable from the source (for any fuel, any
   relation), and on an acyclic relation with enough fuel it lists EVERY reachable node (completeness, from DfsFacts.postorder_spec).
   Used by CoverageFacts (every operator application an output depends on is emitted). *)
From Coq Require Import List Arith Bool Lia.
From Spox Require Import Base IR Build DfsFacts.
Import ListNotations.

Section Reach.
Variable A : Type.
Variable adj : A -> list A.

Inductive reach (src : A) : A -> Prop :=
| reach_refl : reach src src
| reach_step x y : reach src x -> In y (adj x) -> reach src y.

Lemma reach_trans a b c : reach a b -> reach b c -> reach a c.
Proof. intros Hab Hbc. induction Hbc as [|x y _ IH Hy]; [exact Hab|]. eapply reach_step; eauto. Qed.

Lemma reach_adj a b c : In b (adj a) -> reach b c -> reach a c.
Proof. intros H. apply reach_trans. eapply reach_step; [apply reach_refl|exact H]. Qed.

Lemma reach_rank (rank : A -> nat) : (forall u v, In v (adj u) -> rank v < rank u) -> forall a b, reach a b -> rank b <= rank a.
Proof. intros Hr a b H. induction H as [|x y _ IH Hy]; [lia|]. specialize (Hr _ _ Hy). lia. Qed.

Variable eqb : A -> A -> bool.

(* soundness of the fuelled DFS: whatever it adds to the postorder is reachable from the node it was started at *)
Lemma gdfs_sound : forall fuel st u x, In x (snd (gdfs A eqb adj fuel st u)) -> In x (snd st) \/ reach u x.
Proof.
  induction fuel as [|f IH]; intros st u x H; cbn [gdfs] in H; [now left|].
  destruct (DfsFacts.mem A eqb u (fst st)); [now left|]. cbn [snd] in H.
  apply in_app_or in H. destruct H as [H|[<-|[]]]; [|right; apply reach_refl].
  assert (Hfold : forall l st0, (forall v, In v l -> In v (adj u)) ->
            In x (snd (fold_left (gdfs A eqb adj f) l st0)) -> In x (snd st0) \/ reach u x).
  { induction l as [|v l IHl]; intros st0 Hl Hx; cbn [fold_left] in Hx; [now left|].
    apply IHl in Hx; [|intros w Hw; apply Hl; now right]. destruct Hx as [Hx|Hx]; [|now right].
    apply IH in Hx. destruct Hx as [Hx|Hx]; [now left|]. right. eapply reach_adj; [apply Hl; now left|exact Hx]. }
  apply Hfold in H; [|auto]. exact H.
Qed.
End Reach.
Arguments reach {A} adj src _.

(* ---------- the builder's postorder ---------- *)
Lemma postorder_sound adj fuel src x : In x (postorder fuel adj src) -> reach adj src x.
Proof. unfold postorder. rewrite build_dfs_is_dfs. intros H. apply gdfs_sound in H. destruct H as [[]|H]. exact H. Qed.

Lemma closed_In adj post : closed nref adj post -> forall x y, In x post -> In y (adj x) -> In y post.
Proof. intros Hc x y Hx Hy. apply in_split in Hx. destruct Hx as [l1 [l2 E]]. specialize (Hc l1 x l2 E y Hy).
  rewrite E. apply in_or_app. now left. Qed.

Lemma postorder_complete adj (rank : nref -> nat) :
  (forall u v, In v (adj u) -> rank v < rank u) ->
  forall fuel src, rank src < fuel -> forall x, reach adj src x -> In x (postorder fuel adj src).
Proof. intros Ha fuel src Hf x Hx. destruct (postorder_spec adj rank Ha fuel src Hf) as [_ [Hc Hs]].
  induction Hx as [|a b _ IH Hb]; [exact Hs|]. eapply closed_In; eauto. Qed.

(* deps is a sub-relation of full_adj *)
Lemma deps_full p u v : In v (deps p u) -> In v (full_adj p u).
Proof. intros H. unfold full_adj. apply in_or_app. now left. Qed.
Lemma subs_full p u k h : In (k, h) (subs_of p u) -> In (NIntro h) (full_adj p u).
Proof. intros H. unfold full_adj. apply in_or_app. right. apply in_map_iff. exists (k, h). split; [reflexivity|exact H]. Qed.
Lemma reach_deps_full p a b : reach (deps p) a b -> reach (full_adj p) a b.
Proof. intros H. induction H as [|x y _ IH Hy]; [apply reach_refl|]. eapply reach_step; [exact IH|]. now apply deps_full. Qed.
