(* SsaFacts.v — the GraphProto compiled for a scope is in SSA form at its top level BY CONSTRUCTION (no validator): the output
   names of the nodes emitted for distinct source nodes are pairwise distinct, because they are the table entries of distinct
   Vars (ScopeFacts: the table is injective; IOFacts.Ext: entries never change).  Internals of inlined blocks and nested
   graphs are not covered here (validator global_unique).  (C02) *)
From Coq Require Import List String NArith Arith Bool Lia.
From Spox Require Import Base IR Show Build Sem Plan Named Validate BuildFacts CompilePres ScopeFacts EmitFacts IOFacts.
Import ListNotations.
Open Scope list_scope.

Definition top_outs (n : mnode) : list String.string :=
  match n with MNode _ _ _ _ _ o _ => o | MInit o _ => [o] | MIntro _ _ _ o => o | MInline _ _ _ o _ => o end.
Definition tops (ms : list mnode) : list String.string := flat_map top_outs ms.

Lemma trim_prefix : forall l m, exists r, l = trim m l ++ r.
Proof. induction l as [|x t IH]; intros m; cbn [trim]; [exists []; reflexivity|].
  destruct (IH (pred m)) as [r Hr]. destruct (trim (pred m) t) as [|y t'] eqn:Et.
  - destruct (String.eqb x "" && Nat.eqb m 0); [exists (x :: t); reflexivity|exists t; reflexivity].
  - exists r. cbn [app]. f_equal. exact Hr. Qed.

(* names of the outputs 0..n-1 of one node, read from an injective table: pairwise distinct, each the entry of a Var of that node *)
Lemma outs_lookup s u : forall l names, mapM (fun i => vlook s (V u i)) l = inl names ->
  Forall2 (fun i nm => lookup var_eqb (V u i) (vname s) = Some nm) l names.
Proof. intros l names H. eapply mapM_Forall2; [|exact H]. intros i nm _ Hv. unfold vlook in Hv.
  destruct (lookup var_eqb (V u i) (vname s)); [inversion Hv; reflexivity|discriminate]. Qed.

Lemma table_inj s v w n : ScopeInv s -> lookup var_eqb v (vname s) = Some n -> lookup var_eqb w (vname s) = Some n -> v = w.
Proof. intros [[_ Hn] _] Hv Hw. apply (lookup_In var_eqb var_eqb_spec) in Hv. apply (lookup_In var_eqb var_eqb_spec) in Hw.
  eapply table_fst_inj; eauto. Qed.

Lemma outs_NoDup s u : ScopeInv s -> forall l names, NoDup l ->
  Forall2 (fun i nm => lookup var_eqb (V u i) (vname s) = Some nm) l names -> NoDup names.
Proof. intros Hs l names Hl HF. induction HF as [|i nm l names Hi HF IH]; [constructor|]. inversion Hl as [|x y Hx Hy]; subst.
  constructor; [|auto]. intros Hc. apply Hx. clear - Hs Hi HF Hc. induction HF as [|j m l names Hj HF IH]; [destruct Hc|].
  destruct Hc as [->|Hc]; [|right; auto]. left. pose proof (table_inj s _ _ _ Hs Hj Hi) as E. now inversion E. Qed.

Lemma seqn_NoDup : forall n k, NoDup (seqn k n).
Proof. induction n as [|n IH]; intros k; cbn; constructor; [|auto]. intros Hc.
  assert (H : forall n k x, In x (seqn k n) -> k <= x) by (clear; induction n; intros k x Hx; cbn in Hx; [destruct Hx|destruct Hx as [->|Hx]; [lia|apply IHn in Hx; lia]]).
  apply H in Hc. lia. Qed.

Section Ssa.
Variables (p : prog) (un : names) (args_of : nat -> list var) (own_of : nat -> list nref)
          (fbuild : nat -> nat -> res (list mnode * req * list fdesc)).

(* the loop invariant: tables injective; every top-level output name emitted so far is the table entry of a Var of a node already
   processed; no name twice *)
Definition I (done : list nref) (acc : list mnode * scope * req * list fdesc * list fdesc) : Prop :=
  let '(ms, s, rq, fs, sfs) := acc in
  ScopeInv s /\ NoDup (tops ms) /\ forall nm, In nm (tops ms) -> exists v, lookup var_eqb v (vname s) = Some nm /\ In (vnode v) done.

Lemma I_grow done u ms s rq fs sfs rq' fs' sfs' : I done (ms, s, rq, fs, sfs) -> I (done ++ [u]) (ms, s, rq', fs', sfs').
Proof. intros (Hs & Hn & Hw). split; [exact Hs|]. split; [exact Hn|]. intros nm Hin. destruct (Hw nm Hin) as [v [Hl Hd]].
  exists v. split; [exact Hl|]. apply in_or_app. now left. Qed.

(* adding the outputs [names] of node u, read from table s2 which extends s *)
Lemma I_add done u ms s rq fs sfs s2 s3 l names n' rq' fs' sfs' :
  I done (ms, s, rq, fs, sfs) -> ~ In u done -> ScopeInv s2 -> Ext s s2 -> NoDup l ->
  Forall2 (fun i nm => lookup var_eqb (V u i) (vname s2) = Some nm) l names ->
  ScopeInv s3 -> Ext s2 s3 -> (exists r, names = top_outs n' ++ r) ->
  I (done ++ [u]) (ms ++ [n'], s3, rq', fs', sfs').
Proof.
  intros (Hs & Hn & Hw) Hu Hs2 He Hl HF Hs3 He3 [r Hr].
  pose proof (outs_NoDup s2 u Hs2 l names Hl HF) as Hnn.
  assert (Hwit : forall nm, In nm names -> exists i, lookup var_eqb (V u i) (vname s2) = Some nm).
  { clear - HF. induction HF as [|i nm l names Hi HF IH]; intros x Hx; [destruct Hx|]. destruct Hx as [->|Hx]; [eauto|auto]. }
  split; [exact Hs3|]. unfold tops. rewrite flat_map_app. cbn [flat_map]. rewrite app_nil_r. split.
  - apply NoDup_app_intro; [exact Hn| |].
    + rewrite Hr in Hnn. exact (NoDup_app_left _ _ Hnn).
    + intros nm Hin Hc. destruct (Hw nm Hin) as [v [Hl1 Hd]]. assert (Hc' : In nm names) by (rewrite Hr; apply in_or_app; now left).
      destruct (Hwit nm Hc') as [i Hi]. pose proof (table_inj s2 _ _ _ Hs2 (He _ _ Hl1) Hi) as E. subst v. cbn in Hd. contradiction.
  - intros nm Hin. apply in_app_or in Hin. destruct Hin as [Hin|Hin].
    + destruct (Hw nm Hin) as [v [Hl1 Hd]]. exists v. split; [apply He3; apply He; exact Hl1|apply in_or_app; now left].
    + assert (Hc' : In nm names) by (rewrite Hr; apply in_or_app; now left). destruct (Hwit nm Hc') as [i Hi].
      exists (V u i). split; [apply He3; exact Hi|apply in_or_app; right; now left].
Qed.

(* the combined predicate "tables injective and every binding of s0 still there" *)
Definition P0 (s0 s : scope) : Prop := ScopeInv s /\ Ext s0 s.
Lemma P0_refl s : ScopeInv s -> P0 s s. Proof. intros H; split; [exact H|apply Ext_refl]. Qed.
Lemma P0_su s0 s u prefix s' : scope_update p un s u prefix = inl s' -> P0 s0 s -> P0 s0 s'.
Proof. intros H [Hs He]. split; [eapply scope_update_scopeinv; eauto|eapply Ext_trans; [exact He|eapply scope_update_ext; exact H]]. Qed.
Lemma P0_vc s0 s c : P0 s0 s -> P0 s0 (with_vcnt s c). Proof. intros H; exact H. Qed.
Lemma P0_res s0 s r : P0 s0 s -> name_taken s r = false -> P0 s0 (with_reserved s (reserved s ++ [r])).
Proof. intros [Hs He] Hr. split; [now apply ScopeInv_reserve|exact He]. Qed.

Section Step.
Variable rec : scope -> nat -> String.string -> option bool -> res (mgraph * scope * req * list fdesc).
Hypothesis Hrec : forall s0 s g pre vi mg s' rq fs, rec s g pre vi = inl (mg, s', rq, fs) -> P0 s0 s -> P0 s0 s'.

Lemma attr_fold_P0 s0 nm : forall l a0 al sz rqz fz,
  foldM (fun (acc : list (String.string * option mgraph) * scope * req * list fdesc) (ka : String.string * attrv) =>
           let '(l, s, rq, fs) := acc in
           match snd ka with
           | AVal _ => ret ((l ++ [(fst ka, None)])%list, s, rq, fs)
           | AGraph sub =>
             do r <- rec s sub (nm ++ "_" ++ fst ka ++ "__")%string (Some false) ;;
             let '(mg, s', rq', fs') := r in
             ret ((l ++ [(fst ka, Some mg)])%list, s', union req_eqb rq rq', (fs ++ fs')%list)
           end) l a0 = inl (al, sz, rqz, fz) ->
  P0 s0 (snd (fst (fst a0))) -> P0 s0 sz.
Proof. intros l a0 al sz rqz fz H Hp.
  change (CompilePres.sg_inv (P0 s0) (al, sz, rqz, fz)). revert H. assert (Hi : CompilePres.sg_inv (P0 s0) a0) by (destruct a0 as [[[? ?] ?] ?]; exact Hp).
  revert Hi. generalize a0. clear a0 Hp. intros a0 Hi H. revert H Hi. apply foldM_inv.
  intros [[[l0 sa] rqa] fsa] ka [[[l' sb] rqb] fsb] Hka Hsa. unfold CompilePres.sg_inv in *.
  destruct (snd ka) as [sub|x]; [|inversion Hka; subst; exact Hsa].
  apply bind_ok in Hka. destruct Hka as [[[[mg0 s1] rq0] fs0] [Hc Hka]]. inversion Hka; subst. eapply Hrec; eauto. Qed.

Lemma step_ssa prefix done acc u acc' :
  compile_step p un fbuild rec prefix acc u = inl acc' -> ~ In u done -> I done acc -> I (done ++ [u]) acc'.
Proof.
  destruct acc as [[[[ms s] rq] fs] sfs]. destruct acc' as [[[[ms' s'] rq'] fs'] sfs']. intros Hu Hnd HI. unfold compile_step in Hu.
  destruct (is_arg p u) eqn:Ea; [inversion Hu; subst; eapply I_grow; exact HI|].
  pose proof HI as (Hs & _ & _).
  destruct u as [n|g'].
  - apply bind_ok in Hu. destruct Hu as [[rqm fsm] [_ Hu]].
    apply bind_ok in Hu. destruct Hu as [s2 [Hu2 Hu]]. pose proof (P0_su s s _ _ _ Hu2 (P0_refl s Hs)) as [Hs2 He2].
    destruct (kind (getn p n)) as [| | |om imp|body fi fo fa] eqn:Hk.
    + cbn in Ea. rewrite Hk in Ea. discriminate.
    + apply bind_ok in Hu. destruct Hu as [o [Ho Hu]]. inversion Hu; subst.
      unfold vlook in Ho. destruct (lookup var_eqb (V (NReal n) 0) (vname s')) eqn:El; [|discriminate]. inversion Ho; subst.
      eapply I_add with (s2 := s') (l := [0]) (names := [o]); [exact HI|exact Hnd|exact Hs2|exact He2|constructor; [intros []|constructor]| |exact Hs2|apply Ext_refl|exists []; reflexivity].
      constructor; [exact El|constructor].
    + apply bind_ok in Hu. destruct Hu as [nm [_ Hu]]. apply bind_ok in Hu. destruct Hu as [inn [_ Hu]].
      apply bind_ok in Hu. destruct Hu as [outn [Hout Hu]]. apply bind_ok in Hu. destruct Hu as [[[[al s3] rq3] sfs3] [Hsg Hu]].
      inversion Hu; subst. apply attr_fold_P0 with (s0 := s2) in Hsg; [|exact (P0_refl s2 Hs2)]. destruct Hsg as [Hs3 He3].
      eapply I_add with (s2 := s2) (l := seqn 0 (List.length (outs (getn p n)))) (names := outn);
        [exact HI|exact Hnd|exact Hs2|exact He2|apply seqn_NoDup|apply outs_lookup; exact Hout|exact Hs3|exact He3|apply trim_prefix].
    + apply bind_ok in Hu. destruct Hu as [nm [_ Hu]]. destruct om as [gi gin body go_ vi].
      apply bind_ok in Hu. destruct Hu as [[ri sri] [Hri Hu]]. apply bind_ok in Hu. destruct Hu as [[rb srb] [Hrb Hu]].
      apply bind_ok in Hu. destruct Hu as [[ro sro] [Hro Hu]]. apply bind_ok in Hu. destruct Hu as [[rvi srvi] [Hrvi Hu]].
      apply bind_ok in Hu. destruct Hu as [ids [_ Hu]]. apply bind_ok in Hu. destruct Hu as [inn [_ Hu]].
      apply bind_ok in Hu. destruct Hu as [outn [Hout Hu]]. inversion Hu; subst. cbn [fst snd] in *.
      pose proof (CompilePres.rename_val_same (P0 s2) (P0_vc s2) (P0_res s2) nm (NReal n) (ins (getn p n)) gi go_) as Hrv.
      apply (@CompilePres.mapS_same (P0 s2) _ _ Hrv) in Hri. apply (CompilePres.body_loop_same (P0 s2) (P0_vc s2) (P0_res s2)) in Hrb.
      apply (@CompilePres.mapS_same (P0 s2) _ _ Hrv) in Hro. apply (@CompilePres.mapS_same (P0 s2) _ _ Hrv) in Hrvi.
      pose proof (Hrvi (Hro (Hrb (Hri (P0_refl s2 Hs2))))) as [Hs3 He3]. cbn [fst] in Hs3, He3.
      eapply I_add with (s2 := fst (fst srvi)) (l := seqn 0 (List.length (outs (getn p n)))) (names := outn);
        [exact HI|exact Hnd|exact Hs3|eapply Ext_trans; [exact He2|exact He3]|apply seqn_NoDup|apply outs_lookup; exact Hout|exact Hs3|apply Ext_refl|exists []; cbn; now rewrite app_nil_r].
    + apply bind_ok in Hu. destruct Hu as [nm [_ Hu]]. apply bind_ok in Hu. destruct Hu as [inn [_ Hu]].
      apply bind_ok in Hu. destruct Hu as [outn [Hout Hu]]. apply bind_ok in Hu. destruct Hu as [[[[al s3] rq3] sfs3] [Hsg Hu]].
      inversion Hu; subst. apply attr_fold_P0 with (s0 := s2) in Hsg; [|exact (P0_refl s2 Hs2)]. destruct Hsg as [Hs3 He3].
      eapply I_add with (s2 := s2) (l := seqn 0 (List.length (outs (getn p n)))) (names := outn);
        [exact HI|exact Hnd|exact Hs2|exact He2|apply seqn_NoDup|apply outs_lookup; exact Hout|exact Hs3|exact He3|apply trim_prefix].
  - apply bind_ok in Hu. destruct Hu as [s2 [Hu2 Hu]]. pose proof (P0_su s s _ _ _ Hu2 (P0_refl s Hs)) as [Hs2 He2].
    apply bind_ok in Hu. destruct Hu as [nm [_ Hu]]. apply bind_ok in Hu. destruct Hu as [i [_ Hu]].
    apply bind_ok in Hu. destruct Hu as [o [Ho Hu]]. inversion Hu; subst.
    eapply I_add with (s2 := s') (l := seqn 0 (List.length (gres (getg p g')))) (names := o);
      [exact HI|exact Hnd|exact Hs2|exact He2|apply seqn_NoDup|apply outs_lookup; exact Ho|exact Hs2|apply Ext_refl|exists []; cbn; now rewrite app_nil_r].
Qed.

Lemma fold_ssa prefix : forall l done acc acc',
  foldM (compile_step p un fbuild rec prefix) l acc = inl acc' -> NoDup (done ++ l) -> I done acc -> I (done ++ l) acc'.
Proof. induction l as [|u t IH]; intros done acc acc' H Hn HI; cbn [foldM] in H.
  - inversion H; subst. now rewrite app_nil_r.
  - apply bind_ok in H. destruct H as [acc1 [H1 H2]].
    assert (Hu : ~ In u done) by (apply NoDup_remove_2 in Hn; intros Hc; apply Hn; apply in_or_app; now left).
    pose proof (step_ssa prefix done acc u acc1 H1 Hu HI) as HI1.
    replace (done ++ u :: t) with ((done ++ [u]) ++ t) in * by (rewrite <- app_assoc; reflexivity). eapply IH; eauto. Qed.
End Step.

(* the GraphProto compiled for scope g: no output name of a top-level node occurs twice *)
Theorem compile_top_ssa fuel s g prefix vi ai ms ro s' rq fs :
  compile p un args_of own_of fbuild fuel s g prefix vi = inl (MGraph ai ms ro, s', rq, fs) -> ScopeInv s -> NoDup (own_of g) ->
  NoDup (tops ms).
Proof.
  destruct fuel as [|f]; [discriminate|]. intros H Hs Hn. cbn [Build.compile] in H.
  apply bind_ok in H. destruct H as [s1 [H1 H]].
  assert (Hs1 : ScopeInv s1).
  { revert H1 Hs. apply foldM_inv. intros s0 a s0' Hu. eapply scope_update_scopeinv; exact Hu. }
  apply bind_ok in H. destruct H as [[[[[ms0 s3] rq3] fs0] sfs] [H2 H]].
  destruct (Nat.eqb (List.length (gres (getg p g))) 0); [discriminate H|].
  apply bind_ok in H. destruct H as [ai0 [_ H]]. apply bind_ok in H. destruct H as [ro0 [_ H]]. inversion H; subst.
  eapply (fold_ssa (compile p un args_of own_of fbuild f)) with (done := []) in H2.
  - exact (proj1 (proj2 H2)).
  - intros s0 sa g0 pre vi0 mg0 sb rq0 fs1 Hc [Ha Hb]. split; [eapply compile_inv; eauto|eapply compile_ext; eauto].
  - exact Hn.
  - split; [exact Hs1|]. split; [constructor|intros nm []].
Qed.
End Ssa.

Theorem build_main_top_ssa vi ffuel p un main b :
  build_main_gen vi ffuel p un main = inl b -> NoDup (topo_of p main) ->
  match b_graph b with MGraph _ ms _ => NoDup (tops ms) end.
Proof. destruct ffuel as [|ff]; [discriminate|]. cbn [build_main_gen]. intros H Hn.
  apply bind_ok in H. destruct H as [d [Hd H]]. apply bind_ok in H. destruct H as [[[[mg s] rq] fs] [Hc H]].
  inversion H; subst. cbn [b_graph]. destruct mg as [ai ms ro].
  eapply compile_top_ssa; [exact Hc|exact scope0_inv|]. now apply NoDup_filter. Qed.
