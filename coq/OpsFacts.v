(* OpsFacts.v — proofs about Ops.v (C17). *)
From Coq Require Import ZArith List Bool Lia ZifyBool.
From Spox Require Import Ops.
Import ListNotations.
Open Scope Z_scope.

Definition modulus (t : ety) : Z := 2 ^ width t.
Lemma modulus_pos t : is_int t = true -> 0 < modulus t.
Proof. destruct t; cbn; intros; try discriminate; lia. Qed.

Lemma wrap_mod t z : is_int t = true -> (wrap t z) mod modulus t = z mod modulus t.
Proof.
  intros Hi. pose proof (modulus_pos t Hi) as HM. unfold wrap, modulus in *.
  destruct (is_uint t) eqn:Hu.
  - apply Z.mod_mod. lia.
  - assert (Hs : is_sint t = true) by (unfold is_int in Hi; rewrite Hu in Hi; destruct (is_sint t); auto). rewrite Hs.
    rewrite Zminus_mod_idemp_l. f_equal. lia.
Qed.

Lemma wrap_of_mod t x y : is_int t = true -> x mod modulus t = y mod modulus t -> wrap t x = wrap t y.
Proof.
  intros Hi H. unfold wrap, modulus in *. destruct (is_uint t) eqn:Hu; [exact H|].
  assert (Hs : is_sint t = true) by (unfold is_int in Hi; rewrite Hu in Hi; destruct (is_sint t); auto). rewrite Hs.
  f_equal. rewrite (Zplus_mod x), (Zplus_mod y), H. reflexivity.
Qed.

Lemma wrap_eq_mod t x y : is_int t = true -> wrap t x = wrap t y -> x mod modulus t = y mod modulus t.
Proof. intros Hi H. rewrite <- (wrap_mod t x Hi), <- (wrap_mod t y Hi), H. reflexivity. Qed.

Lemma wrap_idem t z : wrap t (wrap t z) = wrap t z.
Proof.
  destruct (is_int t) eqn:Hi.
  - apply wrap_of_mod; [exact Hi|]. apply wrap_mod; exact Hi.
  - destruct t; try discriminate; cbn; try reflexivity. destruct (z =? 0); reflexivity.
Qed.

Lemma in_range_bounds t z : in_range t z = true <-> lo t <= z <= hi t.
Proof. unfold in_range. lia. Qed.

Lemma wrap_in_range t z : int_like t = true -> in_range t (wrap t z) = true.
Proof.
  intros H. apply in_range_bounds. destruct t; try discriminate; cbn -[Z.modulo]; try (destruct (z =? 0); lia);
  match goal with |- context[?a mod ?m] => pose proof (Z.mod_pos_bound a m ltac:(lia)) end; lia.
Qed.

Lemma wrap_id t z : in_range t z = true -> int_like t = true -> wrap t z = z.
Proof.
  intros H Hi. apply in_range_bounds in H. destruct t; try discriminate; cbn -[Z.modulo] in *;
  try (destruct (z =? 0) eqn:E; lia);
  try (rewrite Z.mod_small; lia).
Qed.

Lemma wrap_congr t z : is_int t = true -> exists k, wrap t z = z + k * modulus t.
Proof.
  intros Hi. pose proof (modulus_pos t Hi) as HM. pose proof (wrap_mod t z Hi) as H.
  exists ((wrap t z - z) / modulus t).
  assert ((wrap t z - z) mod modulus t = 0) by (rewrite Zminus_mod, H, Z.sub_diag; apply Z.mod_0_l; lia).
  pose proof (Z.div_mod (wrap t z - z) (modulus t) ltac:(lia)). lia.
Qed.

Lemma wrap_unique t z r : is_int t = true -> in_range t r = true -> (exists k, r = z + k * modulus t) -> r = wrap t z.
Proof.
  intros Hi Hr [k Hk]. rewrite <- (wrap_id t r Hr) by (unfold int_like; rewrite Hi; reflexivity).
  apply wrap_of_mod; [exact Hi|]. subst r. apply Z_mod_plus_full.
Qed.


Lemma wrap_add_congr t x x' y y' : is_int t = true -> wrap t x = wrap t x' -> wrap t y = wrap t y' ->
  wrap t (x + y) = wrap t (x' + y').
Proof. intros Hi Hx Hy. apply wrap_of_mod; [exact Hi|]. apply wrap_eq_mod in Hx, Hy; try exact Hi.
  rewrite (Zplus_mod x), (Zplus_mod x'), Hx, Hy. reflexivity. Qed.
Lemma wrap_sub_congr t x x' y y' : is_int t = true -> wrap t x = wrap t x' -> wrap t y = wrap t y' ->
  wrap t (x - y) = wrap t (x' - y').
Proof. intros Hi Hx Hy. apply wrap_of_mod; [exact Hi|]. apply wrap_eq_mod in Hx, Hy; try exact Hi.
  rewrite (Zminus_mod x), (Zminus_mod x'), Hx, Hy. reflexivity. Qed.
Lemma wrap_mul_congr t x x' y y' : is_int t = true -> wrap t x = wrap t x' -> wrap t y = wrap t y' ->
  wrap t (x * y) = wrap t (x' * y').
Proof. intros Hi Hx Hy. apply wrap_of_mod; [exact Hi|]. apply wrap_eq_mod in Hx, Hy; try exact Hi.
  rewrite (Zmult_mod x), (Zmult_mod x'), Hx, Hy. reflexivity. Qed.

(* the value an operand contributes: the runtime value of a Var, the literal of a scalar *)
Definition val (x : operand) (runtime : Z) : Z :=
  match x with OVar _ => runtime | OPyInt v => v | OPyFloat => 0 | ONp _ v => v end.
Definition int_operand (x : operand) : bool :=
  match x with OVar t => int_like t | OPyInt _ => true | OPyFloat => false | ONp t _ => int_like t end.
Definition side_val (sd : side) (a b : Z) : Z := match sd with SA => a | SB => b end.

Lemma promote_target_eval s t x sd ex t' a b :
  promote_target s t x sd = Ok ex t' -> is_int t = true -> int_operand x = true ->
  t' = t /\ exists v, ieval ex a b = Some v /\ wrap t v = wrap t (val x (side_val sd a b)).
Proof.
  intros H Hi Hx. assert (Hil : int_like t = true) by (unfold int_like; rewrite Hi; reflexivity).
  assert (Hnf : is_float t = false) by (destruct t; try discriminate; reflexivity).
  destruct x as [tx|v| |tx v]; cbn [promote_target] in H; cbn [int_operand] in Hx; try discriminate.
  - inversion H; subst. split; [reflexivity|]. destruct (tp s); cbn [ieval]; rewrite ?Hnf.
    + destruct sd; cbn; eexists; (split; [reflexivity|]); apply wrap_idem.
    + destruct sd; cbn; eexists; (split; [reflexivity|]); reflexivity.
  - destruct (cp s); [|discriminate]. cbn [mk_const] in H. rewrite Hi, Hil in H. cbn [andb] in H.
    destruct (negb (in_range t v)); [discriminate|]. inversion H; subst. split; [reflexivity|].
    cbn [ieval val]. eexists. split; [reflexivity|]. apply wrap_idem.
  - destruct (cp s); [|discriminate]. cbn [mk_const] in H. rewrite Hil, Hx in H. cbn [andb] in H.
    inversion H; subst. split; [reflexivity|]. cbn [ieval val]. eexists. split; [reflexivity|]. apply wrap_idem.
Qed.

Definition wrap_arith (o : arith) : bool := match o with Add | Sub | Mul => true | _ => false end.

Lemma promote_shape rt s fl x y ea eb t :
  promote rt s fl x y = inl (ea, eb, t) ->
  exists t1 t2, promote_target s t x SA = Ok ea t1 /\ promote_target s t y SB = Ok eb t2.
Proof.
  unfold promote. destruct (promote_type rt s fl x y) as [[t0|]|e]; try discriminate.
  destruct (promote_target s t0 x SA) as [ea' t1| | |] eqn:Ea; try discriminate.
  destruct (promote_target s t0 y SB) as [eb' t2| | |] eqn:Eb; try discriminate.
  intros H. inversion H; subst. eauto.
Qed.

Theorem int_arith_exact rt r s o x y e t :
  wrap_arith o = true -> int_operand x = true -> int_operand y = true ->
  disp_arith rt r s o x y = Ok e t -> is_int t = true ->
  forall a b, ieval e a b = Some (wrap t (zarith o (val x a) (val y b))).
Proof.
  intros Ho Hx Hy H Hi a b. unfold disp_arith in H.
  destruct (promote rt s _ x y) as [[[ea eb] t0]|] eqn:Ep; [|discriminate].
  destruct (promote_shape _ _ _ _ _ _ _ _ Ep) as (t1 & t2 & Ha & Hb).
  assert (Ht : t0 = t /\ e = EBin (arith_bop o) t0 ea eb).
  { destruct o; try discriminate; unfold finish_arith, mk_bin in H; cbn [arith_bop] in *; destruct (bop_accepts _ t0); inversion H; auto. }
  destruct Ht as [-> ->].
  destruct (promote_target_eval _ _ _ _ _ _ a b Ha Hi Hx) as (_ & va & Eva & Wa).
  destruct (promote_target_eval _ _ _ _ _ _ a b Hb Hi Hy) as (_ & vb & Evb & Wb).
  cbn [ieval]. rewrite Eva, Evb. unfold bin_sem.
  assert (Hnf : is_float t = false) by (destruct t; try discriminate; reflexivity). rewrite Hnf.
  cbn [side_val] in Wa, Wb.
  destruct o; try discriminate; cbn [arith_bop zarith]; f_equal.
  - apply wrap_add_congr; assumption.
  - apply wrap_sub_congr; assumption.
  - apply wrap_mul_congr; assumption.
Qed.

Theorem neg_exact r s t e t' :
  py_unop r (Some s) PNeg (OVar t) = Ok e t' -> t' = t /\ (is_int t = true -> forall a b, ieval e a b = Some (wrap t (- a))).
Proof.
  unfold py_unop, disp_unary. cbn [is_var negb].
  destruct (fix_neg_unsigned r && is_uint t) eqn:Eu.
  - intros H. inversion H; subst. split; [reflexivity|]. intros Hi a b. cbn [ieval]. unfold bin_sem.
    destruct t'; try discriminate; try (apply andb_prop in Eu; destruct Eu; discriminate); reflexivity.
  - destruct (uop_accepts ONeg t) eqn:E; [|discriminate]. intros H. inversion H; subst. split; [reflexivity|].
    intros Hi a b. cbn [ieval]. unfold un_sem. destruct t'; try discriminate; reflexivity.
Qed.

(* unary - on unsigned element types: ONNX Neg rejects them (pinned tree); the repaired tree emits 0 - x *)
Theorem neg_unsigned_pinned_rejects r s t : fix_neg_unsigned r = false -> is_uint t = true ->
  py_unop r (Some s) PNeg (OVar t) = Err EInference.
Proof. intros Hr Hu. unfold py_unop, disp_unary. cbn [is_var negb]. rewrite Hr. destruct t; try discriminate; reflexivity. Qed.
Theorem neg_numeric_repaired_ok r s t : fix_neg_unsigned r = true -> In t numeric_ety ->
  exists e, py_unop r (Some s) PNeg (OVar t) = Ok e t.
Proof.
  intros Hr Ht. unfold py_unop, disp_unary. cbn [is_var negb]. rewrite Hr.
  destruct t; cbn in Ht; try (exfalso; intuition discriminate); cbn; eexists; reflexivity.
Qed.

Lemma fix_floordiv_ok a b : b <> 0 -> fix_floordiv_z a b = a / b.
Proof.
  intros Hb. unfold fix_floordiv_z.
  pose proof (Z.quot_rem' a b) as Hq. pose proof (Z.rem_bound_abs a b Hb) as Hab.
  assert (Hr : a - Z.quot a b * b = Z.rem a b) by lia. rewrite Hr.
  destruct (Z.rem a b =? 0) eqn:E0; simpl.
  - apply Z.eqb_eq in E0. apply Z.div_unique_exact; lia.
  - apply Z.eqb_neq in E0.
    destruct (Z.rem a b <? 0) eqn:E1, (b <? 0) eqn:E2; simpl;
    try apply Z.ltb_lt in E1; try apply Z.ltb_lt in E2; try apply Z.ltb_ge in E1; try apply Z.ltb_ge in E2.
    + apply (Z.div_unique_neg a b _ (Z.rem a b)); lia.
    + apply (Z.div_unique_pos a b _ (Z.rem a b + b)); lia.
    + apply (Z.div_unique_neg a b _ (Z.rem a b + b)); lia.
    + apply (Z.div_unique_pos a b _ (Z.rem a b)); lia.
Qed.

Lemma trunc_refuted : exists a b, b <> 0 /\ Z.quot a b <> a / b.
Proof. exists (-7), 2. split; [lia|]. vm_compute. discriminate. Qed.

(* bounds, generic in the half-range H *)
Lemma quot_bounds H a b : 0 < H -> - H <= a <= H - 1 -> b <> 0 -> ~ (a = - H /\ b = -1) ->
  - H <= Z.quot a b <= H - 1.
Proof.
  intros HH Ha Hb Hc. pose proof (Z.quot_rem' a b) as Hq. pose proof (Z.rem_bound_abs a b Hb) as Hab.
  pose proof (Z.rem_sign_mul a b Hb) as Hs.
  assert (Habs : Z.abs (Z.quot a b) <= Z.abs a) by (rewrite <- Z.quot_abs by lia; apply Z.quot_le_upper_bound; nia || (apply Z.abs_pos; lia)).
  destruct (Z.eq_dec a (- H)) as [->|Hne]; [|lia].
  assert (b <> -1) by tauto.
  destruct (Z.eq_dec b 1) as [->|Hb1]; [rewrite Z.quot_1_r; lia|].
  assert (Z.abs b >= 2) by lia.
  assert (Z.abs (Z.quot (- H) b) * 2 <= H).
  { rewrite <- Z.quot_abs by lia. replace (Z.abs (- H)) with H by lia.
    pose proof (Z.quot_rem' H (Z.abs b)). pose proof (Z.rem_nonneg H (Z.abs b) ltac:(lia) ltac:(lia)).
    assert (0 <= Z.quot H (Z.abs b)) by (apply Z.quot_pos; lia). nia. }
  lia.
Qed.

Lemma div_bounds H a b : 0 < H -> - H <= a <= H - 1 -> b <> 0 -> ~ (a = - H /\ b = -1) ->
  - H <= a / b <= H - 1.
Proof.
  intros HH Ha Hb Hc.
  destruct (Z_lt_le_dec 0 b) as [Hp|Hn].
  - pose proof (Z.div_mod a b Hb). pose proof (Z.mod_pos_bound a b Hp). nia.
  - assert (Hlt : b < 0) by lia. pose proof (Z.div_mod a b Hb). pose proof (Z.mod_neg_bound a b Hlt).
    destruct (Z.eq_dec b (-1)) as [->|Hb1]; [nia|]. nia.
Qed.

Lemma signed_range t z : is_sint t = true -> (in_range t z = true <-> - 2 ^ (width t - 1) <= z <= 2 ^ (width t - 1) - 1).
Proof. intros Hs. rewrite in_range_bounds. unfold lo, hi. rewrite Hs. reflexivity. Qed.
Lemma half_pos t : is_sint t = true -> 0 < 2 ^ (width t - 1).
Proof. destruct t; try discriminate; cbn; lia. Qed.

(* the corrected tree computes floor division, for every signed type and all in-range operands *)
Lemma floor_fix_sem t ea eb a b va vb :
  is_sint t = true -> ieval ea a b = Some va -> ieval eb a b = Some vb ->
  in_range t va = true -> in_range t vb = true -> vb <> 0 -> ~ (va = lo t /\ vb = -1) ->
  ieval (floor_fix t ea eb (EBin ODiv t ea eb)) a b = Some (va / vb).
Proof.
  intros Hs Ea Eb Ra Rb Hnz Hc.
  assert (Hil : int_like t = true) by (unfold int_like, is_int; rewrite Hs; reflexivity).
  assert (Hnf : is_float t = false) by (destruct t; try discriminate; reflexivity).
  pose proof (half_pos t Hs) as HH. set (H := 2 ^ (width t - 1)) in *.
  apply (signed_range t va Hs) in Ra. apply (signed_range t vb Hs) in Rb. fold H in Ra, Rb.
  assert (Hlo : lo t = - H) by (unfold lo; rewrite Hs; reflexivity). rewrite Hlo in Hc.
  pose proof (quot_bounds H va vb HH Ra Hnz Hc) as Hq.
  pose proof (div_bounds H va vb HH Ra Hnz Hc) as Hd.
  pose proof (Z.quot_rem' va vb) as Hqr. pose proof (Z.rem_bound_abs va vb Hnz) as Hrb.
  assert (Win : forall z, - H <= z <= H - 1 -> wrap t z = z).
  { intros z Hz. apply wrap_id; [|exact Hil]. apply (signed_range t z Hs). exact Hz. }
  assert (Hrem : va - Z.quot va vb * vb = Z.rem va vb) by lia.
  assert (Hmul : - H <= Z.quot va vb * vb <= H - 1).
  { pose proof (Z.rem_sign_mul va vb Hnz). nia. }
  assert (Hr : - H <= Z.rem va vb <= H - 1) by lia.
  unfold floor_fix. cbn [ieval]. rewrite Ea, Eb. unfold bin_sem, un_sem. rewrite Hnf. cbn [is_float].
  apply Z.eqb_neq in Hnz. rewrite Hnz. apply Z.eqb_neq in Hnz.
  rewrite (Win _ Hq), (Win _ Hmul), Hrem, (Win _ Hr).
  cbn [option_map].
  pose proof (fix_floordiv_ok va vb Hnz) as Hfix. unfold fix_floordiv_z in Hfix. cbv zeta in Hfix. rewrite Hrem in Hfix.
  unfold z2b, b2z.
  destruct (Z.rem va vb =? 0) eqn:E0, (Z.rem va vb <? 0) eqn:E1, (vb <? 0) eqn:E2; cbn in Hfix |- *;
    rewrite ?(Win 0), ?(Win 1) by lia; f_equal; rewrite Win by lia; lia.
Qed.


(* when the operand value already belongs to the target type, conversion keeps it *)
Lemma promote_target_eval_inrange s t x sd ex t' a b :
  promote_target s t x sd = Ok ex t' -> is_int t = true -> int_operand x = true ->
  in_range t (val x (side_val sd a b)) = true ->
  ieval ex a b = Some (val x (side_val sd a b)).
Proof.
  intros H Hi Hx Hr. assert (Hil : int_like t = true) by (unfold int_like; rewrite Hi; reflexivity).
  destruct (promote_target_eval _ _ _ _ _ _ a b H Hi Hx) as (_ & v & Ev & Wv).
  rewrite (wrap_id _ _ Hr Hil) in Wv.
  destruct x as [tx|v0| |tx v0]; cbn [promote_target] in H; cbn [int_operand] in Hx; try discriminate.
  - inversion H; subst. assert (Hnf : is_float t' = false) by (destruct t'; try discriminate; reflexivity).
    destruct (tp s); destruct sd; cbn [ieval side_val val] in *; rewrite ?Hnf in *; cbn [option_map] in *;
      try reflexivity; injection Ev as <-; rewrite wrap_idem in Wv; congruence.
  - rewrite Ev. f_equal. destruct (cp s); [|discriminate]. cbn [mk_const] in H. rewrite Hi, Hil in H. cbn [andb] in H.
    destruct (negb (in_range t v0)); [discriminate|]. inversion H; subst. cbn [ieval] in Ev. injection Ev as <-.
    rewrite wrap_idem in Wv. exact Wv.
  - rewrite Ev. f_equal. destruct (cp s); [|discriminate]. cbn [mk_const] in H. rewrite Hil, Hx in H. cbn [andb] in H.
    inversion H; subst. cbn [ieval] in Ev. injection Ev as <-. rewrite wrap_idem in Wv. exact Wv.
Qed.

Lemma floordiv_shape rt r s x y e t :
  disp_arith rt r s FloorDiv x y = Ok e t -> is_int t = true ->
  exists ea eb t1 t2, promote_target s t x SA = Ok ea t1 /\ promote_target s t y SB = Ok eb t2 /\
    e = (if fix_floordiv r && is_sint t then floor_fix t ea eb (EBin ODiv t ea eb) else EBin ODiv t ea eb).
Proof.
  unfold disp_arith. destruct (promote rt s false x y) as [[[ea eb] t0]|] eqn:Ep; [|discriminate].
  destruct (promote_shape _ _ _ _ _ _ _ _ Ep) as (t1 & t2 & Ha & Hb).
  unfold finish_arith, mk_bin. destruct (bop_accepts ODiv t0); [|discriminate].
  destruct (negb (is_int t0)) eqn:Eint.
  - destruct (uop_accepts OFloor t0); [|discriminate]. intros H Hi. inversion H; subst. rewrite Hi in Eint. discriminate.
  - destruct (fix_floordiv r && is_sint t0) eqn:Ef; intros H Hi; inversion H; subst; exists ea, eb, t1, t2; rewrite ?Ef; auto.
Qed.

(* F10a: the pinned tree's integer // truncates *)
Theorem floordiv_trunc_refuted rt c :
  exists e a b, disp_arith rt pinned (mk_setting false c) FloorDiv (OVar I32) (OVar I32) = Ok e I32 /\
    in_range I32 a = true /\ in_range I32 b = true /\ b <> 0 /\
    ieval e a b = Some (-3) /\ a / b = -4.
Proof. exists (EBin ODiv I32 (EArg SA) (EArg SB)), (-7), 2. repeat split; try reflexivity. lia. Qed.

(* repaired tree: floor division for all signed types, all settings, all operand kinds *)
Theorem floordiv_fixed_ok rt s x y e t :
  disp_arith rt repaired s FloorDiv x y = Ok e t -> is_sint t = true ->
  int_operand x = true -> int_operand y = true ->
  forall a b, in_range t (val x a) = true -> in_range t (val y b) = true ->
    val y b <> 0 -> ~ (val x a = lo t /\ val y b = -1) ->
    ieval e a b = Some (val x a / val y b).
Proof.
  intros H Hs Hx Hy a b Ra Rb Hnz Hc.
  assert (Hi : is_int t = true) by (unfold is_int; rewrite Hs; reflexivity).
  destruct (floordiv_shape _ _ _ _ _ _ _ H Hi) as (ea & eb & t1 & t2 & Ha & Hb & ->).
  cbn [repaired fix_floordiv]. rewrite Hs. cbn [andb].
  apply (floor_fix_sem t ea eb a b (val x a) (val y b)); try assumption.
  - exact (promote_target_eval_inrange _ _ _ SA _ _ a b Ha Hi Hx Ra).
  - exact (promote_target_eval_inrange _ _ _ SB _ _ a b Hb Hi Hy Rb).
Qed.

(* the excluded corner, stated: IF the runtime's Div wraps on INT_MIN / -1 (the model's assumption; in C++ this
   is undefined behaviour), the corrected tree returns INT_MIN, which is also what numpy returns (wrapped) *)
Theorem floordiv_fixed_corner t ea eb a b :
  is_sint t = true -> ieval ea a b = Some (lo t) -> ieval eb a b = Some (-1) ->
  ieval (floor_fix t ea eb (EBin ODiv t ea eb)) a b = Some (lo t) /\ wrap t (lo t / -1) = lo t /\ in_range t (lo t / -1) = false.
Proof.
  intros Hs Ea Eb. unfold floor_fix. cbn [ieval]. rewrite Ea, Eb.
  destruct t; try discriminate; vm_compute; auto.
Qed.

(* unsigned types need no correction *)
Theorem floordiv_unsigned_ok rt r s x y e t :
  disp_arith rt r s FloorDiv x y = Ok e t -> is_uint t = true ->
  int_operand x = true -> int_operand y = true ->
  forall a b, in_range t (val x a) = true -> in_range t (val y b) = true -> val y b <> 0 ->
    ieval e a b = Some (val x a / val y b).
Proof.
  intros H Hu Hx Hy a b Ra Rb Hnz.
  assert (Hi : is_int t = true) by (unfold is_int; rewrite Hu; apply orb_true_r).
  assert (Hs : is_sint t = false) by (destruct t; try discriminate; reflexivity).
  assert (Hil : int_like t = true) by (unfold int_like; rewrite Hi; reflexivity).
  destruct (floordiv_shape _ _ _ _ _ _ _ H Hi) as (ea & eb & t1 & t2 & Ha & Hb & ->).
  rewrite Hs, andb_false_r. cbn [ieval].
  rewrite (promote_target_eval_inrange _ _ _ SA _ _ a b Ha Hi Hx Ra), (promote_target_eval_inrange _ _ _ SB _ _ a b Hb Hi Hy Rb).
  cbn [side_val]. unfold bin_sem. assert (Hnf : is_float t = false) by (destruct t; try discriminate; reflexivity). rewrite Hnf.
  apply Z.eqb_neq in Hnz. rewrite Hnz. apply Z.eqb_neq in Hnz. f_equal.
  apply in_range_bounds in Ra, Rb. assert (Hlo : lo t = 0) by (unfold lo; rewrite Hs; reflexivity). rewrite Hlo in *.
  rewrite Z.quot_div_nonneg by lia. apply wrap_id; [|exact Hil]. apply in_range_bounds. rewrite Hlo.
  split; [apply Z.div_pos; lia|]. transitivity (val x a); [|lia]. apply Z.div_le_upper_bound; nia.
Qed.

(* ------------------------------------------------------------------------------------------ no promotion *)
Fixpoint converts_operand (e : expr) : bool :=       (* some operand Var is fed through a Cast *)
  match e with
  | EArg _ | EConst _ _ => false
  | ECast _ (EArg _) => true
  | ECast _ e1 => converts_operand e1
  | EBin _ _ e1 e2 => converts_operand e1 || converts_operand e2
  | EUn _ _ e1 => converts_operand e1
  end.

Theorem no_promotion_type_mismatch rt r c o ta tb :
  ta <> tb -> disp_arith rt r (mk_setting false c) o (OVar ta) (OVar tb) = Err ETypeError.
Proof.
  intros Hne. unfold disp_arith, promote, promote_type. cbn [tp].
  destruct (ety_eqb ta tb) eqn:E; [|destruct o; reflexivity].
  exfalso. apply Hne. unfold ety_eqb in E. destruct ta, tb; try discriminate; reflexivity.
Qed.

Theorem no_promotion_float_meets_int rt r c o t z :
  is_int t = true -> is_var z = false -> target_is_floating z = true ->
  disp_arith rt r (mk_setting false c) o (OVar t) z = Err ETypeError /\
  disp_arith rt r (mk_setting false c) o z (OVar t) = Err ETypeError.
Proof.
  intros Hi Hz Hf. unfold disp_arith, promote, promote_type. cbn [tp].
  destruct z; try discriminate; rewrite Hi, Hf; split; destruct o; reflexivity.
Qed.

Lemma promote_target_nopromo c t x sd ex t' :
  promote_target (mk_setting false c) t x sd = Ok ex t' -> t' = t /\ (ex = EArg sd \/ exists v, ex = EConst t v).
Proof.
  destruct x as [tx|v| |tx v]; cbn [promote_target tp cp].
  - intros H; inversion H; auto.
  - destruct c; [|discriminate]. cbn [mk_const]. destruct (is_int t && negb (in_range t v)); [discriminate|].
    intros H; inversion H; eauto.
  - destruct c; [|discriminate]. cbn [mk_const]. intros H; inversion H; eauto.
  - destruct c; [|discriminate]. cbn [mk_const]. intros H; inversion H; eauto.
Qed.

Lemma promote_type_nopromo rt c fl x y t :
  promote_type rt (mk_setting false c) fl x y = inl (Some t) -> x = OVar t \/ y = OVar t.
Proof.
  unfold promote_type. cbn [tp].
  destruct x as [tx|v| |tx v], y as [ty|w| |ty w]; try discriminate;
  repeat match goal with |- context[if ?c then _ else _] => destruct c eqn:? end; intros H; inversion H; subst; auto.
Qed.

Theorem no_promotion_keeps_type rt r c o x y e t :
  disp_arith rt r (mk_setting false c) o x y = Ok e t ->
  (x = OVar t \/ y = OVar t) /\ converts_operand e = false /\ (o <> FloorDiv -> has_cast e = false).
Proof.
  unfold disp_arith. destruct (promote rt _ _ x y) as [[[ea eb] t0]|] eqn:Ep; [|discriminate].
  destruct (promote_shape _ _ _ _ _ _ _ _ Ep) as (t1 & t2 & Ha & Hb).
  apply promote_target_nopromo in Ha, Hb. destruct Ha as [_ Ha], Hb as [_ Hb].
  assert (Hty : x = OVar t0 \/ y = OVar t0).
  { unfold promote in Ep. destruct (promote_type rt _ _ x y) as [[t'|]|] eqn:Et; try discriminate.
    assert (t' = t0).
    { destruct (promote_target _ t' x SA); try discriminate. destruct (promote_target _ t' y SB); try discriminate.
      inversion Ep; reflexivity. }
    subst. eapply promote_type_nopromo; eauto. }
  assert (Hca : converts_operand ea = false /\ has_cast ea = false) by (destruct Ha as [->|[v ->]]; auto).
  assert (Hcb : converts_operand eb = false /\ has_cast eb = false) by (destruct Hb as [->|[v ->]]; auto).
  destruct Hca as [Hca Hha], Hcb as [Hcb Hhb].
  unfold finish_arith, mk_bin. intros H.
  destruct o; cbn [arith_bop] in H;
    try (destruct (bop_accepts _ t0); inversion H; subst; split; [exact Hty|]; cbn [converts_operand has_cast];
         rewrite Hca, Hcb, Hha, Hhb; auto).
  destruct (bop_accepts ODiv t0); [|discriminate].
  destruct (negb (is_int t0)).
  - destruct (uop_accepts OFloor t0); inversion H; subst. split; [exact Hty|]. cbn [converts_operand has_cast].
    rewrite Hca, Hcb. split; [reflexivity|congruence].
  - destruct (fix_floordiv r && is_sint t0); inversion H; subst; (split; [exact Hty|]); (split; [|congruence]).
    + unfold floor_fix. cbn [converts_operand]. rewrite Hca, Hcb. reflexivity.
    + cbn [converts_operand]. rewrite Hca, Hcb. reflexivity.
Qed.

(* ------------------------------------------------------------------------------------------ outside a block *)
Theorem outside_block_binary rt r o x y :
  is_var x || is_var y = true -> py_binop rt r None o x y = Err ETypeError.
Proof. intros H. unfold py_binop. rewrite H. reflexivity. Qed.
Theorem outside_block_unary r t : fix_unary r = true ->
  py_unop r None PNeg (OVar t) = Err ETypeError /\ py_unop r None PInvert (OVar t) = Err ETypeError.
Proof. intros H. unfold py_unop. cbn [is_var negb]. rewrite H. split; reflexivity. Qed.
Theorem outside_block_unary_refuted :
  exists t, py_unop pinned None PNeg (OVar t) = RNotImplemented /\ py_unop pinned None PInvert (OVar t) = RNotImplemented.
Proof. exists I32. split; reflexivity. Qed.

(* ------------------------------------------------------------------------------------------ logical operators *)
Definition logic_sem (l : logic) (p q : bool) : bool := match l with LAnd => p && q | LOr => p || q | LXor => xorb p q end.

Theorem logical_binary rt r s l :
  py_binop rt r (Some s) (PLogic l) (OVar TB) (OVar TB) = Ok (EBin (logic_bop l) TB (EArg SA) (EArg SB)) TB /\
  forall p q, ieval (EBin (logic_bop l) TB (EArg SA) (EArg SB)) (b2z p) (b2z q) = Some (b2z (logic_sem l p q)).
Proof. split; [reflexivity|]. intros p q. destruct l, p, q; reflexivity. Qed.

Theorem logical_invert r s :
  py_unop r (Some s) PInvert (OVar TB) = Ok (EUn ONot TB (EArg SA)) TB /\
  forall p b, ieval (EUn ONot TB (EArg SA)) (b2z p) b = Some (b2z (negb p)).
Proof. split; [reflexivity|]. intros p b. destruct p; reflexivity. Qed.

Theorem logical_rejects rt r s l x y :
  is_var x || is_var y = true -> (x, y) <> (OVar TB, OVar TB) ->
  py_binop rt r (Some s) (PLogic l) x y = Err (if is_var x && is_var y then EInference else ETypeError).
Proof.
  intros Hv Hne. unfold py_binop. rewrite Hv. cbn [negb]. unfold disp_logic.
  destruct x as [tx|v| |tx v], y as [ty|w| |ty w]; cbn [is_var andb]; try reflexivity.
  destruct tx, ty; cbn; try reflexivity. exfalso; apply Hne; reflexivity.
Qed.

Theorem invert_rejects r s t : t <> TB -> py_unop r (Some s) PInvert (OVar t) = Err EInference.
Proof. intros H. destruct t; try reflexivity. congruence. Qed.


Lemma one_in_range t : is_int t = true -> in_range t 1 = true.
Proof. destruct t; try discriminate; reflexivity. Qed.

Lemma mk_const_pyint t v : mk_const t (OPyInt v) = Err EOverflow \/ exists c c', mk_const t (OPyInt v) = Ok c t /\ mk_const t (OPyInt 1) = Ok c' t.
Proof.
  cbn [mk_const]. destruct (is_int t) eqn:Hi; cbn [andb].
  - rewrite (one_in_range t Hi). cbn [negb]. destruct (in_range t v); cbn [negb]; eauto.
  - eauto.
Qed.

Ltac split_ifs := repeat match goal with |- context[if ?c then _ else _] => destruct c eqn:? end.

Lemma disp_arith_pyint_r rt r s o x v :
  disp_arith rt r s o x (OPyInt v) = Err EOverflow \/
  res_dtype (disp_arith rt r s o x (OPyInt v)) = res_dtype (disp_arith rt r s o x (OPyInt 1)).
Proof.
  unfold disp_arith, promote. 
  assert (Hpt : forall fl, promote_type rt s fl x (OPyInt v) = promote_type rt s fl x (OPyInt 1)).
  { intros fl. unfold promote_type. destruct (tp s); [reflexivity|]. destruct x; reflexivity. }
  rewrite !Hpt. destruct (promote_type rt s _ x (OPyInt 1)) as [[t|]|e]; auto.
  destruct (promote_target s t x SA) as [ea t1| | |]; auto.
  cbn [promote_target]. destruct (cp s); auto.
  destruct (mk_const_pyint t v) as [->|(c1 & c2 & -> & ->)]; [destruct o; auto|].
  right. unfold finish_arith, mk_bin. destruct o; cbn [arith_bop]; split_ifs; reflexivity.
Qed.


Ltac split_ifs_in H := repeat match type of H with context[if ?c then _ else _] => destruct c eqn:? end.

(* ----------------------------------------------------- scalar values do not influence the result element type *)
Lemma promote_type_repr rt s fl x y : promote_type rt s fl x y = promote_type rt s fl (repr x) (repr y).
Proof. unfold promote_type. destruct (tp s); destruct x, y; reflexivity. Qed.

Lemma promote_target_repr s t x sd :
  promote_target s t x sd = Err EOverflow \/
  (exists c c' t1 t2, promote_target s t x sd = Ok c t1 /\ promote_target s t (repr x) sd = Ok c' t2) \/
  (promote_target s t x sd = Err ETypeError /\ promote_target s t (repr x) sd = Err ETypeError).
Proof.
  destruct x as [tx|v| |tx v]; cbn [promote_target repr].
  - right; left; eauto 6.
  - destruct (cp s); [|auto]. destruct (mk_const_pyint t v) as [->|(c1 & c2 & -> & ->)]; [auto|right; left; eauto 6].
  - destruct (cp s); [|auto]. right; left. cbn [mk_const]. eauto 6.
  - destruct (cp s); [|auto]. right; left. cbn [mk_const]. eauto 6.
Qed.

Lemma finish_dtype r o t ea eb ea' eb' :
  res_dtype (finish_arith r o t ea eb) = res_dtype (finish_arith r o t ea' eb').
Proof. unfold finish_arith, mk_bin. destruct o; cbn [arith_bop]; split_ifs; reflexivity. Qed.

Theorem dtype_indep_of_scalar_values rt r s o x y :
  disp_arith rt r s o x y = Err EOverflow \/
  res_dtype (disp_arith rt r s o x y) = res_dtype (disp_arith rt r s o (repr x) (repr y)).
Proof.
  unfold disp_arith, promote. rewrite (promote_type_repr rt s _ x y).
  destruct (promote_type rt s _ (repr x) (repr y)) as [[t|]|e]; auto.
  destruct (promote_target_repr s t x SA) as [->|[(c1 & c1' & u1 & u2 & -> & ->)|[-> ->]]]; auto.
  destruct (promote_target_repr s t y SB) as [->|[(c2 & c2' & u3 & u4 & -> & ->)|[-> ->]]]; auto.
  right. apply finish_dtype.
Qed.

(* ------------------------------------------------------------------------------------------- table lifting *)
Lemma ety_eqb_eq a b : ety_eqb a b = true <-> a = b.
Proof. split; [|intros ->; destruct b; reflexivity]. destruct a, b; try discriminate; reflexivity. Qed.
Lemma opt_ety_eqb_some a t : opt_ety_eqb a (Some t) = true -> a = Some t.
Proof. destruct a as [u|]; cbn; [|discriminate]. intros H. apply ety_eqb_eq in H. congruence. Qed.

Section Lift.
  Variable rt : tk -> tk -> option ety.
  Variable np : arith -> tk -> tk -> option ety.

  Lemma all_arith_complete o : In o all_arith.
  Proof. destruct o; cbn; auto 6. Qed.

  Theorem promo_dtype_repr : check_promo rt np = true ->
    forall r c o x y, (r = pinned \/ r = repaired) -> In (x, y) (operand_pairs numeric_ety) ->
      (c = true \/ is_var x && is_var y = true) ->
      exists e t, disp_arith rt r (mk_setting true c) o x y = Ok e t /\ np o (tk_of x) (tk_of y) = Some t.
  Proof.
    intros Hc r c o x y Hr Hin Hcv. unfold check_promo in Hc.
    rewrite forallb_forall in Hc. specialize (Hc r ltac:(destruct Hr as [-> | ->]; cbn; auto)).
    rewrite forallb_forall in Hc. specialize (Hc c ltac:(destruct c; cbn; auto)).
    rewrite forallb_forall in Hc. specialize (Hc o (all_arith_complete o)).
    rewrite forallb_forall in Hc. specialize (Hc (x, y) Hin). unfold promo_case_ok in Hc.
    assert (Hg : c || (is_var x && is_var y) = true) by (destruct Hcv as [-> | ->]; [reflexivity|apply orb_true_r]).
    rewrite Hg in Hc. destruct (disp_arith rt r (mk_setting true c) o x y) as [e t| | |]; try discriminate.
    exists e, t. split; [reflexivity|]. apply opt_ety_eqb_some. exact Hc.
  Qed.

  (* the operand kinds covered: Vars / numpy scalars of a numeric element type, Python ints, Python floats *)
  Definition numeric_kind (x : operand) : Prop :=
    match x with OVar t | ONp t _ => In t numeric_ety | _ => True end.

  Lemma repr_pair_in x y : numeric_kind x -> numeric_kind y -> is_var x || is_var y = true ->
    In (repr x, repr y) (operand_pairs numeric_ety).
  Proof.
    intros Hx Hy Hv. unfold operand_pairs. rewrite !in_app_iff, !in_prod_iff.
    assert (Hs : forall z, numeric_kind z -> is_var z = false -> In (repr z) (scalar_kinds numeric_ety)).
    { intros z Hz Hnv. destruct z as [t|v| |t v]; try discriminate; cbn [repr scalar_kinds]; [left; reflexivity|right; left; reflexivity|].
      right; right. apply in_map_iff. exists t. split; [reflexivity|exact Hz]. }
    assert (Hvv : forall z, numeric_kind z -> is_var z = true -> In (repr z) (map OVar numeric_ety)).
    { intros z Hz Hzv. destruct z as [t|v| |t v]; try discriminate. apply in_map_iff. exists t. split; [reflexivity|exact Hz]. }
    destruct (is_var x) eqn:Ex, (is_var y) eqn:Ey; try discriminate; auto 7.
  Qed.

  Lemma tk_of_repr x : tk_of (repr x) = tk_of x.
  Proof. destruct x; reflexivity. Qed.
  Lemma is_var_repr x : is_var (repr x) = is_var x.
  Proof. destruct x; reflexivity. Qed.

  (* full strength: all scalar values *)
  Theorem promo_dtype_is_numpys : check_promo rt np = true ->
    forall r c o x y, (r = pinned \/ r = repaired) -> numeric_kind x -> numeric_kind y -> is_var x || is_var y = true ->
      (c = true \/ is_var x && is_var y = true) ->
      disp_arith rt r (mk_setting true c) o x y = Err EOverflow \/
      exists e t, disp_arith rt r (mk_setting true c) o x y = Ok e t /\ np o (tk_of x) (tk_of y) = Some t.
  Proof.
    intros Hc r c o x y Hr Hx Hy Hv Hcv.
    destruct (dtype_indep_of_scalar_values rt r (mk_setting true c) o x y) as [Ho|Hd]; [left; exact Ho|right].
    destruct (promo_dtype_repr Hc r c o (repr x) (repr y) Hr (repr_pair_in x y Hx Hy Hv)) as (e' & t & He & Hn).
    { rewrite !is_var_repr. exact Hcv. }
    rewrite He in Hd. cbn [res_dtype] in Hd. rewrite !tk_of_repr in Hn.
    destruct (disp_arith rt r (mk_setting true c) o x y) as [e t0| | |]; try discriminate.
    cbn in Hd. inversion Hd; subst. eauto.
  Qed.

  (* type promotion off *)
  Theorem nopromo_dtype_is_numpys : check_nopromo np = true ->
    forall r c o x y e t, disp_arith rt r (mk_setting false c) o x y = Ok e t ->
      (forall u v, x <> ONp u v /\ y <> ONp u v) -> numpy_claim o t = true ->
      np o (tk_of x) (tk_of y) = Some t.
  Proof.
    intros Hc r c o x y e t H Hnp Hcl.
    assert (Hnum : In t numeric_ety).
    { unfold disp_arith in H. destruct (promote rt _ _ x y) as [[[ea eb] t0]|]; [|discriminate].
      unfold finish_arith, mk_bin in H. assert (bop_accepts (arith_bop o) t0 = true /\ t0 = t) as [Hacc ->].
      { destruct o; cbn [arith_bop] in *; destruct (bop_accepts _ t0) eqn:E; try discriminate; split; auto;
        try (inversion H; reflexivity). split_ifs_in H; inversion H; reflexivity. }
      destruct t; cbn; auto 12. destruct o; discriminate. }
    unfold check_nopromo in Hc. rewrite forallb_forall in Hc. specialize (Hc o (all_arith_complete o)).
    rewrite forallb_forall in Hc. specialize (Hc t Hnum). unfold nopromo_case_ok in Hc. rewrite Hcl in Hc.
    apply andb_prop in Hc. destruct Hc as [Hc Hf]. apply andb_prop in Hc. destruct Hc as [Hc H3].
    apply andb_prop in Hc. destruct Hc as [H1 H2].
    apply opt_ety_eqb_some in H1, H2, H3.
    pose proof H as Hk. apply no_promotion_keeps_type in Hk. destruct Hk as [Hk _].
    unfold disp_arith, promote, promote_type in H. cbn [tp] in H.
    destruct x as [tx|v| |tx v], y as [ty|w| |ty w]; try (exfalso; destruct (Hnp tx v) as [A B]; congruence);
      try (exfalso; destruct (Hnp ty w) as [A B]; congruence); cbn [tk_of];
      try (destruct Hk as [Hk|Hk]; discriminate).
    - destruct (ety_eqb tx ty) eqn:E; [|discriminate]. apply ety_eqb_eq in E. subst ty.
      destruct Hk as [Hk|Hk]; inversion Hk; subst; exact H1.
    - destruct Hk as [Hk|Hk]; inversion Hk; subst. exact H2.
    - destruct Hk as [Hk|Hk]; inversion Hk; subst.
      destruct (is_int t) eqn:Ei; cbn [target_is_floating andb] in H; [discriminate|].
      assert (Hfl : is_float t = true) by (destruct t; try discriminate; try reflexivity; cbn in Hnum; intuition discriminate).
      rewrite Hfl in Hf. apply andb_prop in Hf. destruct Hf as [H4 H5]. apply opt_ety_eqb_some in H4. exact H4.
    - destruct Hk as [Hk|Hk]; inversion Hk; subst. exact H3.
    - destruct Hk as [Hk|Hk]; inversion Hk; subst.
      destruct (is_int t) eqn:Ei; cbn [target_is_floating andb] in H; [discriminate|].
      assert (Hfl : is_float t = true) by (destruct t; try discriminate; try reflexivity; cbn in Hnum; intuition discriminate).
      rewrite Hfl in Hf. apply andb_prop in Hf. destruct Hf as [H4 H5]. apply opt_ety_eqb_some in H5. exact H5.
  Qed.
End Lift.


Section Lift2.
  Variable rt : tk -> tk -> option ety.

  Theorem int_promotion_lossless : check_lossless rt = true ->
    forall kx ky t, In kx int_tks -> In ky int_tks -> rt kx ky = Some t -> is_int t = true ->
      forall ta z, (kx = TE ta \/ ky = TE ta) -> in_range ta z = true -> in_range t z = true.
  Proof.
    intros Hc kx ky t Hx Hy Hrt Hi ta z Hk Hz. unfold check_lossless in Hc. rewrite forallb_forall in Hc.
    specialize (Hc (kx, ky) ltac:(apply in_prod; assumption)). unfold lossless_case_ok in Hc. rewrite Hrt, Hi in Hc.
    apply andb_prop in Hc. destruct Hc as [H1 H2].
    assert (Hf : tk_fits (TE ta) t = true) by (destruct Hk as [<- | <-]; assumption).
    cbn [tk_fits] in Hf. apply in_range_bounds in Hz. apply in_range_bounds. lia.
  Qed.

  (* consequence for the emitted tree: a Cast of an in-range operand keeps its value *)
  Corollary promotion_cast_keeps_value : check_lossless rt = true ->
    forall kx ky t, In kx int_tks -> In ky int_tks -> rt kx ky = Some t -> is_int t = true ->
      forall ta a b, (kx = TE ta \/ ky = TE ta) -> in_range ta a = true -> ieval (ECast t (EArg SA)) a b = Some a.
  Proof.
    intros Hc kx ky t Hx Hy Hrt Hi ta a b Hk Ha. cbn [ieval].
    assert (Hnf : is_float t = false) by (destruct t; try discriminate; reflexivity). rewrite Hnf. cbn [option_map]. f_equal.
    apply wrap_id; [|unfold int_like; rewrite Hi; reflexivity]. exact (int_promotion_lossless Hc kx ky t Hx Hy Hrt Hi ta a Hk Ha).
  Qed.
End Lift2.

(* type promotion off, same element type on both sides: always a result of that type (numeric types) *)
Theorem no_promotion_same_type_ok rt r c o t : In t numeric_ety ->
  exists e, disp_arith rt r (mk_setting false c) o (OVar t) (OVar t) = Ok e t.
Proof.
  intros Ht. unfold disp_arith, promote, promote_type. cbn [tp]. rewrite (proj2 (ety_eqb_eq t t) eq_refl).
  cbn [promote_target tp]. unfold finish_arith, mk_bin.
  destruct r as [[|] fu fn]; cbn [fix_floordiv];
  destruct t; cbn in Ht; try (exfalso; intuition discriminate); destruct o; cbn; eexists; reflexivity.
Qed.

(* non-vacuity / satisfiability examples *)
Example ex_int_add_wraps :
  exists e, disp_arith (fun _ _ => Some I8) repaired (mk_setting true true) Add (OVar I8) (OPyInt 100) = Ok e I8 /\
            ieval e 100 0 = Some (-56).
Proof. eexists. split; reflexivity. Qed.

Example ex_floordiv_fixed :
  exists e, disp_arith (fun _ _ => None) repaired (mk_setting false true) FloorDiv (OVar I32) (OVar I32) = Ok e I32 /\
            ieval e (-7) 2 = Some (-4) /\ ieval e 7 (-2) = Some (-4) /\ ieval e (-7) (-2) = Some 3 /\ ieval e 6 (-2) = Some (-3).
Proof. eexists. repeat split; reflexivity. Qed.

Example ex_no_promotion_errors :
  disp_arith (fun _ _ => None) repaired (mk_setting false true) Add (OVar I32) (OVar F32) = Err ETypeError /\
  disp_arith (fun _ _ => None) repaired (mk_setting false true) Mul (OVar I64) OPyFloat = Err ETypeError /\
  disp_arith (fun _ _ => None) repaired (mk_setting false false) Mul (OVar I64) (OPyInt 2) = Err ETypeError /\
  disp_arith (fun _ _ => None) repaired (mk_setting false true) Add (OVar U8) (OPyInt 300) = Err EOverflow /\
  exists e, disp_arith (fun _ _ => None) repaired (mk_setting false true) Sub (OPyInt 3) (OVar F32) = Ok e F32 /\ has_cast e = false.
Proof. repeat split; try reflexivity. eexists; split; reflexivity. Qed.

Lemma int_like_of_int t : is_int t = true -> int_like t = true.
Proof. intros H. unfold int_like. rewrite H. reflexivity. Qed.

Theorem wrap_spec t z : is_int t = true ->
  in_range t (wrap t z) = true /\ (exists k, wrap t z = z + k * 2 ^ width t) /\
  (forall r, in_range t r = true -> (exists k, r = z + k * 2 ^ width t) -> r = wrap t z).
Proof.
  intros Hi. split; [apply wrap_in_range, int_like_of_int, Hi|]. split; [exact (wrap_congr t z Hi)|].
  intros r Hr Hk. exact (wrap_unique t z r Hi Hr Hk).
Qed.
