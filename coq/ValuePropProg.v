(* ValuePropProg.v — programs: sequences of node constructions in construction order (an abstract DAG: every step refers
   to earlier environment entries only).  Each step is constructed with [construct] of ValueProp.v; the typing step
   [infer] and the backend are parameters (Section variables).  Used by C15 (downstream effect of faults, backend NONE)
   and C07 (input independence, agreement with the run-time semantics).  No proofs in this file. *)
From Coq Require Import List Bool String Arith.
From Spox Require Import ValueProp.
Import ListNotations.
Open Scope string_scope.

Definition vstate := (option ty * option pval)%type.       (* Var.type, Var._value *)

(* "b is equal to or more permissive than a": same containers and element type, shape of b unknown or of the same rank
   with every known dimension of b equal to that of a *)
Definition dim_ge (a b : dim) : bool :=
  match b with DUnk => true | DConst m => match a with DConst n => Nat.eqb n m | DUnk => false end end.
Definition shape_ge (a b : shape) : bool :=
  match b with None => true | Some y => match a with Some x => forallb2 dim_ge x y | None => false end end.
Fixpoint ty_ge (a b : ty) : bool :=
  match a, b with
  | Tensor e s, Tensor e' s' => elem_beq e e' && shape_ge s s'
  | Sequence x, Sequence y => ty_ge x y
  | Optional x, Optional y => ty_ge x y
  | _, _ => false
  end.
Definition oty_ge (a b : option ty) : bool :=
  match b with None => true | Some tb => match a with Some ta => ty_ge ta tb | None => false end end.

Section Prog.
  Variable opk : Type.                                         (* operator identity and attributes *)
  (* infer_output_types: sees the input types and (through the initializers of the singleton model) the values of
     constant operands; never the backend *)
  Variable infer : opk -> list vstate -> list (option ty).

  Record step := mkStep {
    s_op : opk;
    s_kind : nkind;
    s_is_arg : bool;                    (* an Argument node (KPlain, no inputs): a model input *)
    s_cast : option ty;                 (* Some t: unsafe_cast(x, t) = intro(x) retyped, value copied from x *)
    s_args : list (string * nat);       (* input field name, environment index *)
    s_sub : bool;
    s_outs : list (string * string) }.  (* output field name, backend name *)

  Definition get (env : list vstate) (i : nat) : vstate := nth i env (None, None).
  Definition ins_of (st : step) (env : list vstate) : list vstate := map (fun a => get env (snd a)) (s_args st).

  Fixpoint mk_outs (tys : list (option ty)) (k : nat) (outs : list (string * string)) : list outvar :=
    match outs with
    | [] => []
    | (f, b) :: r => mkOut f b (nth k tys None) None None :: mk_outs tys (S k) r
    end.
  Definition mk_node (st : step) (env : list vstate) : node :=
    mkNode (s_kind st)
           (map (fun a => let s := get env (snd a) in mkIn (fst a) (fst s) (is_some (snd s)) None) (s_args st))
           (s_sub st)
           (mk_outs (infer (s_op st) (ins_of st env)) 0 (s_outs st)).

  Definition typed_only (n : node) : list vstate := map (fun o => (out_type o, o_val0 o)) (n_out n).
  Definition step_outs (c : cfg) (b : backend) (st : step) (env : list vstate) (r : backend_result) : list vstate :=
    match s_cast st with
    | Some t => [(Some t, match ins_of st env with s :: _ => snd s | [] => None end)]
    | None =>
        let n := mk_node st env in
        match construct c b n r with
        | Ok outs => map (fun x => match x with (_, t, v, _) => (t, v) end) outs
        | Err _ => typed_only n
        end
    end.

  (* the evaluator: a function of the step and of the states of its operands *)
  Variable bk : nat -> list vstate -> backend_result.

  (* run the constructions; [fault i = Some r]: the backend hands back r at step i instead.  The boolean tells whether
     every faulted step ended without any value attached (the fault was a detected one). *)
  Fixpoint run (c : cfg) (b : backend) (fault : nat -> option backend_result) (i : nat) (prog : list step)
               (env : list vstate) : list vstate * bool :=
    match prog with
    | [] => (env, true)
    | st :: rest =>
        let r := match fault i with Some r => r | None => bk i (ins_of st env) end in
        let outs := step_outs c b st env r in
        let dropped := match fault i with
                       | Some _ => forallb (fun s => negb (is_some (snd s))) outs
                       | None => true
                       end in
        let '(e, ok) := run c b fault (S i) rest (env ++ outs) in (e, dropped && ok)
    end.
  Definition no_fault : nat -> option backend_result := fun _ => None.

  (* relation between the fault-free state s and the state s' of the same Var in a faulty run *)
  Definition vle (s s' : vstate) : Prop := s' = s \/ (snd s' = None /\ oty_ge (fst s) (fst s') = true).

  (* well-formed steps: constants/initializers/arguments have no operands *)
  Definition wf_step (st : step) : Prop :=
    (match s_kind st with KSource _ => s_args st = [] | _ => True end) /\
    (s_is_arg st = true -> s_kind st = KPlain /\ s_args st = [] /\ s_cast st = None) /\
    (s_cast st <> None -> List.length (s_args st) = 1).

  (* --- dependency cones -------------------------------------------------------------------------------- *)
  (* dep[j] = true iff environment entry j has an Argument in its dependency cone *)
  Fixpoint deps (prog : list step) (dep : list bool) : list bool :=
    match prog with
    | [] => dep
    | st :: rest =>
        let d := s_is_arg st || existsb (fun a => nth (snd a) dep false) (s_args st) in
        let w := match s_cast st with Some _ => 1 | None => List.length (s_outs st) end in
        deps rest (dep ++ repeat d w)
    end.

  (* the structure that reaches the build (operator, kind, edges, names): no Var state in it *)
  Definition structure (prog : list step) : list (opk * list (string * nat) * list (string * string)) :=
    map (fun st => (s_op st, s_args st, s_outs st)) prog.
End Prog.
