(* LegalFacts.v — the semantic theorem of C01 for LEGAL programs, with no check of the model's output and no evaluation of a plan:
   [legal_b] is a decidable condition on the program and the request only - the object graph is acyclic, operands are outputs of real
   nodes with valid output indices, attribute names are unique per node, only operator / function nodes carry subgraphs, the declared
   arguments of the graphs are distinct Argument outputs, disjoint between graphs, and (NO LEAK) every argument a node uses is declared by
   the graph the scope resolution places the node in or by an enclosing one.  For such programs the well-formedness of the emitted plan
   is PROVED (WfFacts.wf_spec_main on top of PlanFacts.compile_plan), hence whatever build_public returns computes the program's
   meaning. *)
From Coq Require Import List String NArith Arith Bool Lia.
From Spox Require Import Base IR Show Build Sem Plan Named Validate DfsFacts ReachFacts DiscoverFacts ScopeFacts EmitFacts CoverageFacts LcaFacts
                         PlacementFacts DefUseFacts TreeFacts PlanFacts WfFacts BuildFacts SemFacts.
Import ListNotations.
Open Scope list_scope.

(* ---------- the decidable premises ---------- *)
Definition is_real (v : nref) : bool := match v with NReal _ => true | NIntro _ => false end.
Definition ins_real_b (p : prog) : bool :=
  forallb (fun nd => forallb (fun ox => match ox with Some x => is_real (vnode x) | None => true end) (ins nd)) (nodes p) &&
  forallb (fun g => forallb (fun kv : String.string * var => is_real (vnode (snd kv))) (gres g)) (graphs p).
Lemma ins_real_b_sound p : ins_real_b p = true -> ins_real p.
Proof.
  intros H u v Hv. unfold ins_real_b in H. apply andb_prop in H. destruct H as [H1 H2]. rewrite forallb_forall in H1, H2.
  assert (R : forall w, is_real w = true -> exists n, w = NReal n) by (intros [n|g] E; [eauto|discriminate]).
  unfold deps in Hv. destruct u as [n|g].
  - apply in_flat_map in Hv. destruct Hv as [ox [Hox Hv]]. unfold getn in Hox.
    destruct (nth_in_or_default n (nodes p) dnode) as [Hin|Hd]; [|rewrite Hd in Hox; destruct Hox].
    specialize (H1 _ Hin). rewrite forallb_forall in H1. specialize (H1 _ Hox). destruct ox as [x|]; [|destruct Hv]. destruct Hv as [<-|[]]. now apply R.
  - apply in_map_iff in Hv. destruct Hv as [kv [<- Hk]]. unfold getg in Hk.
    destruct (nth_in_or_default g (graphs p) dgraph) as [Hin|Hd]; [|rewrite Hd in Hk; destruct Hk].
    specialize (H2 _ Hin). rewrite forallb_forall in H2. apply R. now apply H2.
Qed.

Definition keys_b (p : prog) : bool := forallb (fun nd => nodupb String.eqb (map fst (subs nd))) (nodes p).
Lemma lookup_nodup_str {B} (l : list (String.string * B)) k v : NoDup (map fst l) -> In (k, v) l -> lookup String.eqb k l = Some v.
Proof.
  induction l as [|[k' v'] t IH]; intros Hnd Hin; [destruct Hin|]. cbn [map fst] in Hnd. inversion Hnd; subst.
  unfold lookup. cbn [find fst]. destruct (String.eqb_spec k k') as [->|Hne].
  - destruct Hin as [E|Hin]; [inversion E; reflexivity|]. exfalso. apply H1. apply in_map_iff. exists (k', v). auto.
  - destruct Hin as [E|Hin]; [inversion E; congruence|]. apply (IH H2 Hin).
Qed.
Lemma keys_b_sound p : keys_b p = true -> forall u k h, In (k, h) (subs_of p u) -> sub_id p u k = h.
Proof.
  intros H u k h Hk. unfold sub_id. destruct u as [n|g]; [|destruct Hk]. cbn [subs_of] in *. unfold keys_b in H. rewrite forallb_forall in H.
  unfold getn in *. destruct (nth_in_or_default n (nodes p) dnode) as [Hin|Hd]; [|rewrite Hd in Hk; destruct Hk].
  specialize (H _ Hin). apply (nodupb_NoDup String.eqb String.eqb_spec) in H. now rewrite (lookup_nodup_str _ k h H Hk).
Qed.

Definition disjointb (a b : list var) : bool := forallb (fun x => negb (Base.mem var_eqb x b)) a.
Definition args1_b (p : prog) : bool :=
  forallb (fun g => nodupb var_eqb (gargsP p g) && forallb (fun a => is_arg p (vnode a)) (gargsP p g)) (seq 0 (List.length (graphs p))).
Definition args2_b (p : prog) : bool :=
  forallb (fun i => forallb (fun j => Nat.eqb i j || disjointb (gargsP p i) (gargsP p j)) (seq 0 (List.length (graphs p)))) (seq 0 (List.length (graphs p))).
Lemma gargs_out p g : List.length (graphs p) <= g -> gargsP p g = [].
Proof. intros H. unfold gargsP, getg. now rewrite (nth_overflow _ _ H). Qed.
Lemma args1_b_sound p : args1_b p = true -> forall g, NoDup (gargsP p g) /\ forall a, In a (gargsP p g) -> is_arg p (vnode a) = true.
Proof.
  intros H g. destruct (le_lt_dec (List.length (graphs p)) g) as [Hle|Hlt].
  - rewrite (gargs_out p g Hle). split; [constructor|intros a []].
  - unfold args1_b in H. rewrite forallb_forall in H. specialize (H g ltac:(apply in_seq; lia)). apply andb_prop in H. destruct H as [H1 H2].
    split; [now apply (nodupb_NoDup var_eqb var_eqb_spec)|]. rewrite forallb_forall in H2. exact H2.
Qed.
Lemma args2_b_sound p : args2_b p = true -> forall g g' a, g <> g' -> In a (gargsP p g) -> ~ In a (gargsP p g').
Proof.
  intros H g g' a Hne Ha Ha'.
  destruct (le_lt_dec (List.length (graphs p)) g) as [Hle|Hlt]; [rewrite (gargs_out p g Hle) in Ha; destruct Ha|].
  destruct (le_lt_dec (List.length (graphs p)) g') as [Hle'|Hlt']; [rewrite (gargs_out p g' Hle') in Ha'; destruct Ha'|].
  unfold args2_b in H. rewrite forallb_forall in H. specialize (H g ltac:(apply in_seq; lia)). rewrite forallb_forall in H.
  specialize (H g' ltac:(apply in_seq; lia)). apply orb_prop in H. destruct H as [H|H]; [apply Nat.eqb_eq in H; contradiction|].
  unfold disjointb in H. rewrite forallb_forall in H. specialize (H a Ha). apply negb_true_iff in H.
  apply (BuildFacts.mem_nIn var_eqb var_eqb_spec) in H. contradiction.
Qed.

(* NO LEAK: an argument used by a node is declared by the graph the node is placed in, or by a graph that encloses it *)
Definition args3_b (p : prog) (main : nat) : bool :=
  match discover (fuel_of p) p dstate0 main with
  | inl d =>
      forallb (fun u => is_arg p u ||
         match lookup nref_eqb u (scopes_of p d) with
         | None => true
         | Some s => forallb (fun ox => match ox with
                                        | Some x => negb (is_arg p (vnode x)) ||
                                                    existsb (fun k => Base.mem var_eqb x (gargsP p (up (parf p d) k s))) (seq 0 (S (fuel_of p)))
                                        | None => true end) (insP p main u)
         end) (topo_of p main)
  | inr _ => false end.
Definition args4_b (p : prog) (main : nat) : bool :=
  forallb (fun u => forallb (fun ox => match ox with Some x => is_arg p (vnode x) || Nat.ltb (vidx x) (noutsP p (vnode x)) | None => true end)
                            (insP p main u)) (topo_of p main).

Definition legal_b (p : prog) (main : nat) : bool :=
  CoverageFacts.acyclic_b p && wf_kinds_b p && Plan.acyclic_b p main && inR p main (NIntro main) &&
  ins_real_b p && keys_b p && args1_b p && args2_b p && args3_b p main && args4_b p main.

Lemma legal_split p main : legal_b p main = true ->
  CoverageFacts.acyclic_b p = true /\ wf_kinds_b p = true /\ Plan.acyclic_b p main = true /\ inR p main (NIntro main) = true /\
  ins_real_b p = true /\ keys_b p = true /\ args1_b p = true /\ args2_b p = true /\ args3_b p main = true /\ args4_b p main = true.
Proof. unfold legal_b. intros H. do 9 (apply andb_prop in H; destruct H as [H ?]). repeat split; assumption. Qed.

Lemma args3_b_sound p main d : discover (fuel_of p) p dstate0 main = inl d -> args3_b p main = true ->
  forall s u x, In u (own_of_def p d main s) -> is_arg p u = false -> In (Some x) (insP p main u) -> is_arg p (vnode x) = true ->
    exists g', Anc p d g' s /\ In x (gargsP p g').
Proof.
  intros Hd H s u x Hu Hua Hx Hxa. unfold args3_b in H. rewrite Hd in H. rewrite forallb_forall in H.
  unfold own_of_def in Hu. apply filter_In in Hu. destruct Hu as [Hut Hs]. specialize (H u Hut). rewrite Hua in H. cbn [orb] in H.
  destruct (lookup nref_eqb u (scopes_of p d)) as [s'|]; [|discriminate Hs]. apply Nat.eqb_eq in Hs. subst s'.
  rewrite forallb_forall in H. specialize (H _ Hx). cbn beta iota in H. rewrite Hxa in H. cbn [negb orb] in H.
  apply existsb_exists in H. destruct H as [k [_ Hk]]. exists (up (parf p d) k s). split; [exists k; reflexivity|].
  now apply (BuildFacts.mem_In var_eqb var_eqb_spec).
Qed.
Lemma args4_b_sound p main : args4_b p main = true ->
  forall u x, In u (topo_of p main) -> In (Some x) (insP p main u) -> is_arg p (vnode x) = false -> vidx x < noutsP p (vnode x).
Proof.
  intros H u x Hu Hx Ha. unfold args4_b in H. rewrite forallb_forall in H. specialize (H u Hu). rewrite forallb_forall in H. specialize (H _ Hx).
  cbn beta iota in H. rewrite Ha in H. cbn [orb] in H. now apply Nat.ltb_lt.
Qed.

(* ---------- the plan of a returned model is well formed, for legal programs ---------- *)
Theorem build_main_gen_plan_wf vi ffuel p un main b :
  build_main_gen vi ffuel p un main = inl b -> legal_b p main = true ->
  wf (is_argP p) (insP p main) (subsP p main) (gargsP p) (gresP p) (noutsP p) (plan_of_graph p main (b_graph b)) [] [].
Proof.
  intros H HL. destruct ffuel as [|ff]; [discriminate|]. cbn [build_main_gen] in H.
  apply bind_ok in H. destruct H as [d [Hd H]]. apply bind_ok in H. destruct H as [[[[mg s] rq] fs] [Hc H]].
  inversion H; subst. cbn [b_graph].
  rewrite (compile_plan _ _ _ _ _ _ _ _ _ _ _ _ _ _ Hc main).
  destruct (legal_split p main HL) as (L1 & L2 & L3 & L4 & L5 & L6 & L7 & L8 & L9 & L10).
  destruct (acyclic_b_sound p L1 p (fun _ => eq_refl) eq_refl) as [Hr Hf].
  apply (wf_spec_main p (rankf p) Hr Hf main d Hd).
  - now apply wf_kinds_b_sound.
  - now apply ins_real_b_sound.
  - now apply keys_b_sound.
  - now apply args1_b_sound.
  - now apply args2_b_sound.
  - now apply (args3_b_sound p main d Hd).
  - now apply args4_b_sound.
  - eapply compile_spec_ok. exact Hc.
Qed.

Theorem build_main_plan_wf ffuel p un main b :
  build_main ffuel p un main = inl b -> legal_b p main = true ->
  wf (is_argP p) (insP p main) (subsP p main) (gargsP p) (gresP p) (noutsP p) (plan_of_graph p main (b_graph b)) [] [].
Proof. exact (build_main_gen_plan_wf (Some true) ffuel p un main b). Qed.

Lemma wf_plan_sem p args outputs mg :
  let p' := with_main p (Some args) outputs in
  Plan.acyclic_b p' 0 = true -> inR p' 0 (NIntro 0) = true ->
  wf (is_argP p') (insP p' 0) (subsP p' 0) (gargsP p') (gresP p') (noutsP p') (plan_of_graph p' 0 mg) [] [] ->
  forall (val : Type) (dv : val) (opsem : nat -> list (option val) -> list (clos val) -> list val),
  (forall n ivs c1 c2, Forall2 (fun a b => forall av, a av = b av) c1 c2 -> opsem n ivs c1 = opsem n ivs c2) ->
  forall av,
  run_plan p' 0 val dv opsem (plan_of_graph p' 0 mg) av =
  map (meaning p' 0 val dv opsem (bindv val dv args av)) (map snd outputs).
Proof.
  intros p' Ha Hin0 Hwf val dv opsem Hext av.
  rewrite (plan_sem_wf p' 0 Ha val dv opsem Hext mg Hwf av).
  change (gargsP p' 0) with args.
  unfold gresP. rewrite map_map. change (gres (getg p' 0)) with outputs.
  apply nth_ext with (d := dv) (d' := dv); [now rewrite !map_length, seq_length|].
  intros i Hi'. rewrite map_length, seq_length in Hi'.
  rewrite (nth_indep _ dv (meaning p' 0 val dv opsem (bindv val dv args av) (V (NIntro 0) 0))) by (now rewrite map_length, seq_length).
  rewrite (map_nth (fun x => meaning p' 0 val dv opsem (bindv val dv args av) (V (NIntro 0) x))), seq_nth by assumption. cbn [Nat.add].
  destruct (nth_error outputs i) as [kv|] eqn:Ek; [|apply nth_error_None in Ek; lia].
  rewrite (meaning_intro p' 0 Ha val dv opsem Hext _ 0 i (snd kv) Hin0) by (unfold greqP; change (gres (getg p' 0)) with outputs; now rewrite nth_error_map, Ek).
  symmetry. rewrite (nth_indep _ dv (meaning p' 0 val dv opsem (bindv val dv args av) (snd kv))) by (now rewrite !map_length).
  rewrite map_map. rewrite (map_nth (fun x : String.string * var => meaning p' 0 val dv opsem (bindv val dv args av) (snd x))).
  now rewrite (nth_error_nth _ _ _ Ek).
Qed.

(* ---------- C01 for legal programs ---------- *)
Theorem build_sem_legal p r m inputs outputs :
  build_public p r = inl m -> all_vars (r_inputs r) = Some inputs -> all_vars (r_outputs r) = Some outputs ->
  exists args, (r_drop r = false -> args = map snd inputs) /\ (forall a, In a args -> In a (map snd inputs)) /\
    let p' := with_main p (Some args) outputs in
    legal_b p' 0 = true ->
    forall (val : Type) (dv : val) (opsem : nat -> list (option val) -> list (clos val) -> list val),
    (forall n ivs c1 c2, Forall2 (fun a b => forall av, a av = b av) c1 c2 -> opsem n ivs c1 = opsem n ivs c2) ->
    forall av,
    run_plan p' 0 val dv opsem (plan_of_graph p' 0 (mmain m)) av =
    map (meaning p' 0 val dv opsem (bindv val dv args av)) (map snd outputs).
Proof.
  intros H Hi Ho. unfold build_public in H. rewrite Hi, Ho in H.
  destruct (negb _); [discriminate|]. destruct outputs as [|o os]; [discriminate|].
  apply bind_ok in H. destruct H as [args [Ha H]]. apply bind_ok in H. destruct H as [b [Hb H]].
  apply bind_ok in H. destruct H as [m' [Hm H]]. pose proof (to_model_struct _ _ Hm) as (_ & Hmg & _).
  destruct (mmain m') as [gi body go_] eqn:Eg. destruct (forallb _ gi); [|discriminate]. inversion H; subst m'.
  exists args. split; [intros Hd; rewrite Hd in Ha; inversion Ha; reflexivity|]. split.
  - destruct (r_drop r).
    + apply bind_ok in Ha. destruct Ha as [b1 [_ Ha]]. destruct (forallb _ (b_args b1)); [|discriminate]. inversion Ha; subst.
      intros a Hin. apply filter_In in Hin. tauto.
    + inversion Ha; subst. auto.
  - intros p' HL val dv opsem Hext av. rewrite Eg, Hmg.
    pose proof (build_main_plan_wf _ _ _ _ _ Hb HL) as Hwf.
    destruct (legal_split _ _ HL) as (L1 & L2 & L3 & L4 & _).
    apply wf_plan_sem; assumption.
Qed.

Definition legal_req (p : prog) (r : request) : bool :=
  match all_vars (r_inputs r), all_vars (r_outputs r) with
  | Some i, Some o => legal_b (final_prog p r i o) 0
  | _, _ => false end.
