(* GlobalInline.v — every non-empty value name is defined ONCE IN THE WHOLE MODEL, inlined blocks included, BY CONSTRUCTION (no
   validator): extends GlobalFacts to programs with inlined models.  A definition is either the table entry of a Var of a source node
   processed once (GlobalFacts) or a name RESERVED while its block was emitted - reserved names are fresh when they are reserved, stay
   reserved, and never name a Var (ScopeFacts, InlineDefs); inside one block the definitions are the injective image (InlineInj) of
   the definitions of the inlined model, in order (InlineSeq).  Premises on every inlined model (decidable, evaluated on every program):
   it defines each name once (all nested graphs included) and none under the name of one of its inputs - the pinned code keeps a
   duplication that the inlined model already has (known finding F33), so this premise cannot be dropped - and no operand of the Inline
   node is one of its own outputs.  (C02 / C08) *)
From Coq Require Import List String NArith Arith Bool Lia.
From Spox Require Import Base IR Show Build Sem Plan Named Validate BuildFacts CompilePres ScopeFacts EmitFacts IOFacts SsaFacts GlobalFacts
  InlineDefs InlineInj InlineSeq.
Import ListNotations.
Open Scope list_scope.

(* ---------- reserved names only grow ---------- *)
Definition Rsub (s s' : scope) : Prop := forall x, In x (reserved s) -> In x (reserved s').
Lemma Rsub_refl s : Rsub s s. Proof. intros x H; exact H. Qed.
Lemma Rsub_trans a b c : Rsub a b -> Rsub b c -> Rsub a c. Proof. unfold Rsub; auto. Qed.

Lemma scope_update_reserved p un s u prefix s' : scope_update p un s u prefix = inl s' -> reserved s' = reserved s.
Proof. intros H. refine (CompilePres.scope_update_inv_leaf (fun s1 => reserved s1 = reserved s) _ _ _ _ p un s u prefix s' H eq_refl).
  - intros s1 v n s2 H1 Hs. unfold set_var in H1. destruct (find _ (vname s1)) as [[v' n']|].
    + destruct (var_eqb v v'); [|discriminate]. now inversion H1; subst.
    + destruct (mem String.eqb n (reserved s1)); [discriminate|]. destruct (lookup var_eqb v (vname s1)); [discriminate|]. now inversion H1; subst.
  - intros s1 w n s2 H1 Hs. unfold set_node in H1. destruct (find _ (nname s1)) as [[w' n']|].
    + destruct (nref_eqb w w'); [|discriminate]. now inversion H1; subst.
    + destruct (lookup nref_eqb w (nname s1)); [discriminate|]. now inversion H1; subst.
  - intros s1 c H1. exact H1.
  - intros s1 c H1. exact H1. Qed.
Lemma compile_Rsub p un args_of own_of fbuild fuel s g prefix vi mg s' rq fs :
  compile p un args_of own_of fbuild fuel s g prefix vi = inl (mg, s', rq, fs) -> Rsub s s'.
Proof. intros H x Hx. eapply compile_reserved_persist; eauto. Qed.

(* ---------- where a defined name comes from ---------- *)
(* every name of [names] is the table entry (in s) of a Var of one of [nodes], or was reserved after s0 and is still reserved in s *)
Definition WN (s0 s : scope) (nodes : list nref) (names : list String.string) : Prop :=
  forall nm, In nm names -> (exists v, lookup var_eqb v (vname s) = Some nm /\ In (vnode v) nodes) \/ (In nm (reserved s) /\ ~ In nm (reserved s0)).
Lemma W_WN s0 s nodes names : W s nodes names -> WN s0 s nodes names.
Proof. intros H nm Hin. left. exact (H nm Hin). Qed.
Lemma WN_nil s0 s nodes : WN s0 s nodes []. Proof. intros nm []. Qed.
Lemma WN_sub s0 s nodes names names' : (forall x, In x names' -> In x names) -> WN s0 s nodes names -> WN s0 s nodes names'.
Proof. intros Hi Hw nm Hin. apply Hw. auto. Qed.

Lemma nonempty_app a b : nonempty (a ++ b) = nonempty a ++ nonempty b.
Proof. unfold nonempty. apply filter_app. Qed.
Lemma nonempty_cons x l : nonempty (x :: l) = if String.eqb x "" then nonempty l else x :: nonempty l.
Proof. unfold nonempty. cbn. destruct (String.eqb x ""); reflexivity. Qed.
Lemma nonempty_In x l : In x (nonempty l) -> In x l /\ x <> ""%string.
Proof. unfold nonempty. intros H. apply filter_In in H. destruct H as [H1 H2]. split; [exact H1|]. intros ->. discriminate. Qed.

Lemma names_extend2 s0 s s' done newd L N :
  ScopeInv s' -> Ext s s' -> Rsub s s' -> Rsub s0 s -> NoDup L -> WN s0 s done L -> NoDup N -> WN s s' newd N -> (forall x, In x done -> ~ In x newd) ->
  NoDup (L ++ N) /\ WN s0 s' (done ++ newd) (L ++ N).
Proof. intros Hs He Hr Hr0 HL HwL HN HwN Hd. split.
  - apply NoDup_app_intro; [exact HL|exact HN|]. intros nm H1 H2.
    destruct (HwL nm H1) as [[v [Hv Hnv]]|[Hres Hnew]]; destruct (HwN nm H2) as [[w [Hw Hnw]]|[Hres' Hnew']].
    + pose proof (table_inj s' _ _ _ Hs (He _ _ Hv) Hw) as E. subst w. exact (Hd _ Hnv Hnw).
    + exact (reserved_is_no_var_name s' nm v Hs Hres' (He _ _ Hv)).
    + exact (reserved_is_no_var_name s' nm w Hs (Hr _ Hres) Hw).
    + exact (Hnew' Hres).
  - intros nm Hin. apply in_app_or in Hin. destruct Hin as [Hin|Hin].
    + destruct (HwL nm Hin) as [[v [Hv Hnv]]|[Hres Hnew]]; [left; exists v; split; [now apply He|apply in_or_app; now left]|right; split; [exact (Hr _ Hres)|exact Hnew]].
    + destruct (HwN nm Hin) as [[v [Hv Hnv]]|[Hres Hnew]]; [left; exists v; split; [exact Hv|apply in_or_app; now right]|right; split; [exact Hres|]].
      intros Hc. exact (Hnew (Hr0 _ Hc)). Qed.

Lemma names_join s0 s' A B LA LB :
  ScopeInv s' -> NoDup LA -> W s' A LA -> NoDup LB -> WN s0 s' B LB -> (forall x, In x A -> ~ In x B) ->
  NoDup (LA ++ LB) /\ WN s0 s' (A ++ B) (LA ++ LB).
Proof. intros Hs HA HwA HB HwB Hd. split.
  - apply NoDup_app_intro; [exact HA|exact HB|]. intros nm H1 H2. destruct (HwA nm H1) as [v [Hv Hnv]].
    destruct (HwB nm H2) as [[w [Hw Hnw]]|[Hres _]].
    + pose proof (table_inj s' _ _ _ Hs Hv Hw) as E. subst w. exact (Hd _ Hnv Hnw).
    + exact (reserved_is_no_var_name s' nm v Hs Hres Hv).
  - intros nm Hin. apply in_app_or in Hin. destruct Hin as [Hin|Hin].
    + destruct (HwA nm Hin) as [v [Hv Hnv]]. left. exists v. split; [exact Hv|apply in_or_app; now left].
    + destruct (HwB nm Hin) as [[v [Hv Hnv]]|Hr]; [left; exists v; split; [exact Hv|apply in_or_app; now right]|right; exact Hr]. Qed.

(* ---------- premises on an inlined model ---------- *)
Definition inline_ok (n : nat) (operands : list (option var)) (gi : list String.string) (body : list onode) : Prop :=
  inner_defs_ok gi body /\ NoDup (flat_map odefs_node body) /\ (forall i v k, nth i operands None = Some v -> v <> V (NReal n) k).

(* the Identity nodes emitted for pass-through outputs: distinct output Vars of the Inline node *)
Lemma ids_names s u (Q : nat -> Prop) : forall ks ids,
  Forall2 (fun k l0 => l0 = [] \/ exists a b0, l0 = [MRaw "" "Identity" "" [a] [b0] []] /\ lookup var_eqb (V u k) (vname s) = Some b0 /\ Q k) ks ids ->
  ScopeInv s -> NoDup ks ->
  NoDup (nonempty (flat_map defs_raw (List.concat ids))) /\
  forall x, In x (nonempty (flat_map defs_raw (List.concat ids))) -> exists k, In k ks /\ Q k /\ lookup var_eqb (V u k) (vname s) = Some x.
Proof. intros ks ids HF Hs. induction HF as [|k l0 ks ids Hk HF IH]; intros Hn; cbn.
  - split; [constructor|intros x []].
  - inversion Hn as [|y l Hy Hl]; subst. destruct (IH Hl) as [IH1 IH2]. rewrite flat_map_app, nonempty_app.
    destruct Hk as [->|(a & b0 & -> & Hb & Hq)].
    + cbn [flat_map nonempty filter app]. split; [exact IH1|]. intros x Hx. destruct (IH2 x Hx) as [k' [H1 H2]]. exists k'. split; [now right|exact H2].
    + assert (E : flat_map defs_raw [MRaw "" "Identity" "" [a] [b0] []] = nonempty [b0]) by (cbn; now rewrite !app_nil_r).
      rewrite E. clear E. rewrite (nonempty_cons b0 []). destruct (String.eqb b0 "") eqn:Eb; [|rewrite nonempty_cons, Eb]; cbn [app nonempty filter].
      * split; [exact IH1|]. intros x Hx. destruct (IH2 x Hx) as [k' [H1 H2]]. exists k'. split; [now right|exact H2].
      * apply String.eqb_neq in Eb. split.
        -- constructor; [|exact IH1]. intros Hc. destruct (IH2 b0 Hc) as [k' [H1 [_ H3]]].
           pose proof (table_inj s _ _ _ Hs Hb H3) as E. inversion E; subst k'. exact (Hy H1).
        -- intros x [<-|Hx]; [exists k; split; [now left|split; assumption]|]. destruct (IH2 x Hx) as [k' [H1 H2]]. exists k'. split; [now right|exact H2].
Qed.

(* ---------- the loop step that emits an inlined block ---------- *)
Theorem inline_step_unique p un fbuild rec prefix ms s rq fs sfs n acc' gi gin body go_ vi imp :
  compile_step p un fbuild rec prefix (ms, s, rq, fs, sfs) (NReal n) = inl acc' ->
  is_arg p (NReal n) = false -> kind (getn p n) = KInline (OGraph gi gin body go_ vi) imp -> ScopeInv s ->
  inline_ok n (ins (getn p n)) gi body ->
  let '(ms', s', _, _, _) := acc' in
  exists nm inn outn b, ms' = ms ++ [MInline nm (NReal n) inn outn b] /\
    ScopeInv s' /\ Ext s s' /\ Rsub s s' /\
    NoDup (nonempty (flat_map defs_raw b)) /\ WN s s' [NReal n] (nonempty (flat_map defs_raw b)).
Proof.
  intros Hu Ea Hk Hs (Hok & Hnd & Hop). destruct acc' as [[[[ms' s'] rq'] fs'] sfs']. unfold compile_step in Hu. rewrite Ea in Hu.
  apply bind_ok in Hu. destruct Hu as [[rqm fsm] [_ Hu]]. apply bind_ok in Hu. destruct Hu as [s2 [Hu2 Hu]]. rewrite Hk in Hu.
  pose proof (P0_su p un s s _ _ _ Hu2 (P0_refl s Hs)) as [Hs2 He2]. pose proof (scope_update_reserved _ _ _ _ _ _ Hu2) as Er2.
  apply bind_ok in Hu. destruct Hu as [nm [_ Hu]].
  apply bind_ok in Hu. destruct Hu as [[ri sri] [Hri Hu]]. apply bind_ok in Hu. destruct Hu as [[rb srb] [Hrb Hu]].
  apply bind_ok in Hu. destruct Hu as [[ro sro] [Hro Hu]]. apply bind_ok in Hu. destruct Hu as [[rvi srvi] [Hrvi Hu]].
  apply bind_ok in Hu. destruct Hu as [ids [Hids Hu]]. apply bind_ok in Hu. destruct Hu as [inn [_ Hu]].
  apply bind_ok in Hu. destruct Hu as [outn [_ Hu]]. inversion Hu; subst. cbn [fst snd] in *.
  exists nm, inn, outn, (rb ++ List.concat ids). split; [reflexivity|].
  (* the scope predicate through the renaming *)
  assert (HP : P0 s2 (fst (fst srvi))).
  { pose proof (CompilePres.rename_val_same (P0 s2) (P0_vc s2) (P0_res s2) nm (NReal n) (ins (getn p n)) gi go_) as Hrv.
    pose proof (@CompilePres.mapS_same (P0 s2) _ _ Hrv _ _ _ _ Hri) as A1. pose proof (CompilePres.body_loop_same (P0 s2) (P0_vc s2) (P0_res s2) _ _ _ _ _ _ _ _ _ Hrb) as A2.
    pose proof (@CompilePres.mapS_same (P0 s2) _ _ Hrv _ _ _ _ Hro) as A3. pose proof (@CompilePres.mapS_same (P0 s2) _ _ Hrv _ _ _ _ Hrvi) as A4.
    exact (A4 (A3 (A2 (A1 (P0_refl s2 Hs2))))). }
  destruct HP as [Hs3 He3].
  (* the rename-table invariants and the ordered image *)
  set (R0 := reserved s2).
  assert (I0 : InvV R0 (s2, [], [])).
  { split; [cbn; split; [intros d r Hd; discriminate Hd|intros d d' r Hd; discriminate Hd]|]. cbn. split; [intros x Hx; exact Hx|intros d r Hd; discriminate Hd]. }
  destruct (InlineSeq.mapS_rv_facts nm (NReal n) (ins (getn p n)) gi go_ R0 _ _ _ _ Hri I0) as (L1 & I1 & _).
  destruct (body_loop_seq nm (NReal n) (ins (getn p n)) gi go_ R0 _ _ _ _ Hrb I1) as (L2 & I2 & C2).
  destruct (InlineSeq.mapS_rv_facts nm (NReal n) (ins (getn p n)) gi go_ R0 _ _ _ _ Hro I2) as (L3 & I3 & _).
  destruct (InlineSeq.mapS_rv_facts nm (NReal n) (ins (getn p n)) gi go_ R0 _ _ _ _ Hrvi I3) as (L4 & I4 & _).
  pose proof (St_le_trans _ _ _ L3 L4) as L34. pose proof (Seq_mono (NReal n) (ins (getn p n)) gi go_ _ _ _ _ L34 C2) as Cf.
  pose proof (St_le_trans _ _ _ L1 (St_le_trans _ _ _ L2 L34)) as L14.
  destruct srvi as [[scf vtf] ntf]. cbn [fst] in *. destruct I4 as [[V1 V2] [F1 F2]].
  assert (Hrs : Rsub s scf). { intros x Hx. cbn in L14. destruct L14 as (_ & _ & Hr). apply Hr. rewrite Er2. exact Hx. }
  split; [exact Hs3|]. split; [eapply Ext_trans; eauto|]. split; [exact Hrs|].
  (* A: the renamed body *)
  assert (HA : NoDup (nonempty (flat_map defs_raw rb))).
  { eapply Seq_NoDup; [exact Cf|exact Hnd|]. intros d d' x Hd Hd' Hr Hr' Hx.
    destruct (Rn_injective (NReal n) (ins (getn p n)) gi go_ (scf, vtf, ntf) d d' x Hs3 (conj V1 V2) Hop Hr Hr' Hx) as [E|[Hc _]]; [exact E|].
    exfalso. apply Hc. exact (Hok d Hd). }
  assert (HAw : forall x, In x (nonempty (flat_map defs_raw rb)) ->
            exists d, In d (flat_map odefs_node body) /\ Rn (NReal n) (ins (getn p n)) gi go_ (scf, vtf, ntf) d x /\ x <> ""%string).
  { intros x Hx. apply nonempty_In in Hx. destruct Hx as [Hx Hne]. destruct (Seq_In _ _ _ _ _ _ _ Cf x Hx) as [d [Hd Hr]]. exists d. auto. }
  (* B: the pass-through identities *)
  assert (HF : Forall2 (fun k l0 => l0 = [] \/ exists a b0, l0 = [MRaw "" "Identity" "" [a] [b0] []] /\ lookup var_eqb (V (NReal n) k) (vname scf) = Some b0 /\
                          index_last (nth k go_ ""%string) gi 0 None <> None)
                       (seqn 0 (List.length go_)) ids).
  { eapply mapM_Forall2_in; [|exact Hids]. intros k l0 _ Hk0. cbn beta in Hk0.
    destruct (index_last (nth k go_ "") go_ 0 None) as [k'|]; [|inversion Hk0; now left].
    destruct (index_last (nth k go_ "") gi 0 None) as [i|] eqn:Ei; [|inversion Hk0; now left].
    destruct (Nat.eqb k k'); [|inversion Hk0; now left].
    destruct (nth i (ins (getn p n)) None) as [v|]; [|discriminate].
    apply bind_ok in Hk0. destruct Hk0 as [a [_ Hk0]]. apply bind_ok in Hk0. destruct Hk0 as [b0 [Hb Hk0]]. inversion Hk0; subst.
    right. exists a, b0. split; [reflexivity|]. split; [|discriminate]. unfold vlook in Hb. destruct (lookup var_eqb (V (NReal n) k) (vname scf)); [now inversion Hb|discriminate]. }
  destruct (ids_names scf (NReal n) _ _ _ HF Hs3 (seqn_NoDup _ 0)) as [HB HBw].
  rewrite flat_map_app, nonempty_app. split.
  - apply NoDup_app_intro; [exact HA|exact HB|]. intros x Hx Hc.
    destruct (HAw x Hx) as (d & Hd & Hr & Hne). destruct (HBw x Hc) as (k & _ & Hq & Hl).
    cbn [Rn] in Hr. rewrite (Hok d Hd) in Hr. destruct (index_last d go_ 0 None) as [k2|] eqn:Ek2.
    + pose proof (table_inj scf _ _ _ Hs3 Hr Hl) as E. inversion E; subst k2. apply Hq. rewrite (index_last_nth _ _ _ Ek2). exact (Hok d Hd).
    + destruct (V1 d x Hr) as [E|Hin]; [exact (Hne E)|]. exact (reserved_is_no_var_name scf x _ Hs3 Hin Hl).
  - intros x Hx. apply in_app_or in Hx. destruct Hx as [Hx|Hx].
    + destruct (HAw x Hx) as (d & Hd & Hr & Hne). cbn [Rn] in Hr. rewrite (Hok d Hd) in Hr. destruct (index_last d go_ 0 None) as [k2|].
      * left. exists (V (NReal n) k2). split; [exact Hr|now left].
      * right. destruct (V1 d x Hr) as [E|Hin]; [exfalso; exact (Hne E)|]. split; [exact Hin|]. destruct (F2 d x Hr) as [E|Hf]; [exfalso; exact (Hne E)|].
        intros Hc. apply Hf. unfold R0. rewrite Er2. exact Hc.
    + destruct (HBw x Hx) as (k & _ & _ & Hl). left. exists (V (NReal n) k). split; [exact Hl|now left].
Qed.

Lemma nonempty_idem l : nonempty (nonempty l) = nonempty l.
Proof. unfold nonempty. induction l as [|x t IH]; cbn; [reflexivity|]. destruct (negb (String.eqb x "")) eqn:E; cbn; [rewrite E, IH; reflexivity|exact IH]. Qed.
Lemma NoDup_nonempty l : NoDup l -> NoDup (nonempty l). Proof. unfold nonempty. apply NoDup_filter. Qed.
Lemma nonempty_sub l : forall x, In x (nonempty l) -> In x l. Proof. intros x H. exact (proj1 (nonempty_In x l H)). Qed.

(* ---------- the whole model ---------- *)
Section Global2.
Variables (p : prog) (un : names) (args_of : nat -> list var) (own_of : nat -> list nref)
          (fbuild : nat -> nat -> res (list mnode * req * list fdesc)).
Hypothesis Hinl : forall n gi gin body go_ vi imp, kind (getn p n) = KInline (OGraph gi gin body go_ vi) imp -> inline_ok n (ins (getn p n)) gi body.
Notation spec_all := (GlobalFacts.spec_all p args_of own_of).

Definition GoodG2 (s s' : scope) (mg : mgraph) (nodes : list nref) : Prop :=
  ScopeInv s' /\ Ext s s' /\ Rsub s s' /\ NoDup (nonempty (defs_graph mg)) /\ WN s s' nodes (nonempty (defs_graph mg)).

Definition J2 (s0 : scope) (done : list nref) (acc : list mnode * scope * req * list fdesc * list fdesc) : Prop :=
  let '(ms, s, rq, fs, sfs) := acc in
  ScopeInv s /\ Rsub s0 s /\ NoDup (nonempty (flat_map defs_node ms)) /\ WN s0 s done (nonempty (flat_map defs_node ms)).

Section Step.
Variable f : nat.
Variable rec : scope -> nat -> String.string -> option bool -> res (mgraph * scope * req * list fdesc).
Hypothesis Hrec : forall s g pre vi mg s' rq fs, rec s g pre vi = inl (mg, s', rq, fs) -> ScopeInv s -> NoDup (spec_all f g) ->
  GoodG2 s s' mg (spec_all f g).

Lemma al_defs_snoc l0 k (mg : mgraph) : al_defs (l0 ++ [(k, Some mg)]) = al_defs l0 ++ defs_graph mg.
Proof. unfold al_defs. rewrite flat_map_app. cbn. now rewrite app_nil_r. Qed.
Lemma al_defs_snoc_none l0 (k : String.string) : al_defs (l0 ++ [(k, None)]) = al_defs l0.
Proof. unfold al_defs. rewrite flat_map_app. cbn. now rewrite app_nil_r. Qed.

Lemma attr_fold_good2 nm : forall l l0 sa rqa fsa al sz rqz fz s0 donea,
  foldM (fun (acc : list (String.string * option mgraph) * scope * req * list fdesc) (ka : String.string * attrv) =>
           let '(l, s, rq, fs) := acc in
           match snd ka with
           | AVal _ => ret ((l ++ [(fst ka, None)])%list, s, rq, fs)
           | AGraph sub =>
             do r <- rec s sub (nm ++ "_" ++ fst ka ++ "__")%string (Some false) ;;
             let '(mg, s', rq', fs') := r in
             ret ((l ++ [(fst ka, Some mg)])%list, s', union req_eqb rq rq', (fs ++ fs')%list)
           end) l (l0, sa, rqa, fsa) = inl (al, sz, rqz, fz) ->
  ScopeInv sa -> Rsub s0 sa -> NoDup (nonempty (al_defs l0)) -> WN s0 sa donea (nonempty (al_defs l0)) ->
  NoDup (donea ++ flat_map (attr_spec (spec_all f)) l) ->
  ScopeInv sz /\ Ext sa sz /\ Rsub sa sz /\ NoDup (nonempty (al_defs al)) /\ WN s0 sz (donea ++ flat_map (attr_spec (spec_all f)) l) (nonempty (al_defs al)).
Proof.
  induction l as [|ka t IH]; intros l0 sa rqa fsa al sz rqz fz s0 donea H Hs Hr0 Hn Hw Hnd; cbn [foldM] in H.
  - inversion H; subst. cbn. rewrite app_nil_r. split; [exact Hs|]. split; [apply Ext_refl|]. split; [apply Rsub_refl|]. split; assumption.
  - apply bind_ok in H. destruct H as [[[[l1 s1] rq1] fs1] [Hk H]]. cbn [flat_map] in Hnd |- *. unfold attr_spec at 1 in Hnd. unfold attr_spec at 1.
    destruct (snd ka) as [sub|x] eqn:Eka.
    + apply bind_ok in Hk. destruct Hk as [[[[mg0 sb] rqb] fsb] [Hc Hk]]. inversion Hk; subst.
      assert (Hsub : NoDup (spec_all f sub)).
      { apply NoDup_app_right in Hnd. exact (NoDup_app_left _ _ Hnd). }
      destruct (Hrec _ _ _ _ _ _ _ _ Hc Hs Hsub) as (Hsb & Heb & Hrb & Hnb & Hwb).
      destruct (names_extend2 s0 sa s1 donea (spec_all f sub) (nonempty (al_defs l0)) (nonempty (defs_graph mg0)) Hsb Heb Hrb Hr0 Hn Hw Hnb Hwb) as [Hn1 Hw1].
      { intros x Hx Hc'. rewrite app_assoc in Hnd. apply NoDup_app_left in Hnd. exact (NoDup_app_disj _ _ Hnd x Hx Hc'). }
      rewrite app_assoc in Hnd. rewrite app_assoc.
      destruct (IH _ _ _ _ _ _ _ _ s0 (donea ++ spec_all f sub) H Hsb (Rsub_trans _ _ _ Hr0 Hrb)) as (Hz & Hez & Hrz & Hnz & Hwz);
        [rewrite al_defs_snoc, nonempty_app; exact Hn1|rewrite al_defs_snoc, nonempty_app; exact Hw1|exact Hnd|].
      split; [exact Hz|]. split; [eapply Ext_trans; eauto|]. split; [eapply Rsub_trans; eauto|]. split; assumption.
    + inversion Hk; subst. cbn [app] in *.
      eapply IH; [exact H|exact Hs|exact Hr0|rewrite al_defs_snoc_none; exact Hn|rewrite al_defs_snoc_none; exact Hw|exact Hnd].
Qed.

Lemma defs_snoc2 ms n : nonempty (flat_map defs_node (ms ++ [n])) = nonempty (flat_map defs_node ms) ++ nonempty (defs_node n).
Proof. rewrite GlobalFacts.defs_snoc. apply nonempty_app. Qed.

(* a node whose outputs were read from the table: distinct non-empty names, all entries of its own Vars *)
Lemma outs_good2 s0 s u l names sub : ScopeInv s -> NoDup l -> mapM (fun i => vlook s (V u i)) l = inl names ->
  (forall x, In x sub -> In x names) -> NoDup sub -> NoDup (nonempty sub) /\ WN s0 s [u] (nonempty sub).
Proof. intros Hs Hl Hm Hsub Hnd. destruct (node_outs_good s u l names Hs Hl Hm) as [_ Hw]. split; [now apply NoDup_nonempty|].
  apply W_WN. eapply W_sub; [|exact Hw]. intros x Hx. apply Hsub. now apply nonempty_sub. Qed.

Lemma step_J2 prefix s0 done acc u acc' :
  compile_step p un fbuild rec prefix acc u = inl acc' -> NoDup (done ++ node_spec p (spec_all f) u) -> J2 s0 done acc ->
  J2 s0 (done ++ node_spec p (spec_all f) u) acc'.
Proof.
  destruct acc as [[[[ms s] rq] fs] sfs]. destruct acc' as [[[[ms' s'] rq'] fs'] sfs']. intros Hu Hnd HJ. unfold node_spec in *.
  destruct (is_arg p u) eqn:Ea; [unfold compile_step in Hu; rewrite Ea in Hu; inversion Hu; subst; rewrite app_nil_r; exact HJ|].
  destruct HJ as (Hs & Hr0 & HnL & HwL).
  assert (Hdisj1 : forall x, In x done -> ~ In x [u]).
  { intros x Hx [E|[]]. subst x. apply NoDup_remove_2 in Hnd. apply Hnd. apply in_or_app. now left. }
  destruct u as [n|g'].
  - cbn [node_subs] in *. destruct (kind (getn p n)) as [| | |om imp|body fi fo fa] eqn:Hk.
    + cbn in Ea. rewrite Hk in Ea. discriminate.
    + unfold compile_step in Hu. rewrite Ea, Hk in Hu.
      apply bind_ok in Hu. destruct Hu as [[rqm fsm] [_ Hu]].
      apply bind_ok in Hu. destruct Hu as [s2 [Hu2 Hu]]. pose proof (P0_su p un s s _ _ _ Hu2 (P0_refl s Hs)) as [Hs2 He2].
      pose proof (scope_update_reserved _ _ _ _ _ _ Hu2) as Er2.
      apply bind_ok in Hu. destruct Hu as [o [Ho Hu]]. inversion Hu; subst. unfold J2. rewrite defs_snoc2. cbn [defs_node].
      assert (Hm : mapM (fun i => vlook s' (V (NReal n) i)) [0] = inl [o]) by (cbn; rewrite Ho; reflexivity).
      destruct (outs_good2 s s' (NReal n) [0] [o] [o] Hs2 (seqn_NoDup 1 0) Hm (fun x H => H)) as [Hn1 Hw1].
      { destruct (node_outs_good s' (NReal n) [0] [o] Hs2 (seqn_NoDup 1 0) Hm) as [Hx _]. exact Hx. }
      assert (Hrs : Rsub s s') by (intros x Hx; rewrite Er2; exact Hx).
      destruct (names_extend2 s0 s s' done [NReal n] _ _ Hs2 He2 Hrs Hr0 HnL HwL Hn1 Hw1 Hdisj1) as [Hn2 Hw2].
      split; [exact Hs2|]. split; [eapply Rsub_trans; eauto|]. split; assumption.
    + unfold compile_step in Hu. rewrite Ea, Hk in Hu.
      apply bind_ok in Hu. destruct Hu as [[rqm fsm] [_ Hu]].
      apply bind_ok in Hu. destruct Hu as [s2 [Hu2 Hu]]. pose proof (P0_su p un s s _ _ _ Hu2 (P0_refl s Hs)) as [Hs2 He2].
      pose proof (scope_update_reserved _ _ _ _ _ _ Hu2) as Er2.
      apply bind_ok in Hu. destruct Hu as [nm [_ Hu]]. apply bind_ok in Hu. destruct Hu as [inn [_ Hu]].
      apply bind_ok in Hu. destruct Hu as [outn [Hout Hu]]. apply bind_ok in Hu. destruct Hu as [[[[al s3] rq3] sfs3] [Hsg Hu]].
      inversion Hu; subst. unfold J2. rewrite defs_snoc2. cbn [defs_node]. rewrite nonempty_app, nonempty_idem.
      destruct (trim_prefix outn (min_out (getn p n))) as [r Hr].
      destruct (node_outs_good s2 (NReal n) _ outn Hs2 (seqn_NoDup _ 0) Hout) as [Hno _].
      destruct (outs_good2 s s2 (NReal n) _ outn (trim (min_out (getn p n)) outn) Hs2 (seqn_NoDup _ 0) Hout) as [Hn1' Hw1'].
      { intros x Hx. rewrite Hr. apply in_or_app. now left. }
      { eapply sublist_prefix_NoDup; eauto. }
      assert (Hrs : Rsub s s2) by (intros x Hx; rewrite Er2; exact Hx).
      destruct (names_extend2 s0 s s2 done [NReal n] _ _ Hs2 He2 Hrs Hr0 HnL HwL Hn1' Hw1' Hdisj1) as [Hn2 Hw2].
      assert (Hsubs : NoDup ((done ++ [NReal n]) ++ flat_map (attr_spec (spec_all f)) (attrs (getn p n)))).
      { rewrite <- app_assoc. exact Hnd. }
      destruct (attr_fold_good2 nm _ _ _ _ _ _ _ _ _ s2 [] Hsg Hs2 (Rsub_refl s2)) as (Hs3 & He3 & Hr3 & Hn3 & Hw3).
      { cbn. constructor. } { apply WN_nil. } { cbn [app]. apply NoDup_app_right in Hsubs. exact Hsubs. }
      cbn [app] in Hw3.
      destruct (names_extend2 s0 s2 s' (done ++ [NReal n]) (flat_map (attr_spec (spec_all f)) (attrs (getn p n))) _ (nonempty (al_defs al))
                  Hs3 He3 Hr3 (Rsub_trans _ _ _ Hr0 Hrs) Hn2 Hw2 Hn3 Hw3) as [Hn4 Hw4].
      { intros x Hx Hc. exact (NoDup_app_disj _ _ Hsubs x Hx Hc). }
      split; [exact Hs3|]. split; [eapply Rsub_trans; [exact Hr0|eapply Rsub_trans; eauto]|].
      rewrite <- !app_assoc in Hn4. rewrite <- !app_assoc in Hw4. cbn [app] in Hw4. fold (al_defs al). split; assumption.
    + destruct om as [gi gin body go_ vi].
      pose proof (inline_step_unique p un fbuild rec prefix ms s rq fs sfs n _ gi gin body go_ vi imp Hu Ea Hk Hs (Hinl _ _ _ _ _ _ _ Hk)) as H.
      cbn beta iota in H. destruct H as (nm & inn & outn & b & -> & Hs2 & He2 & Hrs & Hn1 & Hw1).
      unfold J2. rewrite defs_snoc2. cbn [defs_node].
      destruct (names_extend2 s0 s s' done [NReal n] _ _ Hs2 He2 Hrs Hr0 HnL HwL Hn1 Hw1 Hdisj1) as [Hn2 Hw2].
      split; [exact Hs2|]. split; [eapply Rsub_trans; eauto|]. split; assumption.
    + unfold compile_step in Hu. rewrite Ea, Hk in Hu.
      apply bind_ok in Hu. destruct Hu as [[rqm fsm] [_ Hu]].
      apply bind_ok in Hu. destruct Hu as [s2 [Hu2 Hu]]. pose proof (P0_su p un s s _ _ _ Hu2 (P0_refl s Hs)) as [Hs2 He2].
      pose proof (scope_update_reserved _ _ _ _ _ _ Hu2) as Er2.
      apply bind_ok in Hu. destruct Hu as [nm [_ Hu]]. apply bind_ok in Hu. destruct Hu as [inn [_ Hu]].
      apply bind_ok in Hu. destruct Hu as [outn [Hout Hu]]. apply bind_ok in Hu. destruct Hu as [[[[al s3] rq3] sfs3] [Hsg Hu]].
      inversion Hu; subst. unfold J2. rewrite defs_snoc2. cbn [defs_node]. rewrite nonempty_app, nonempty_idem.
      destruct (trim_prefix outn (min_out (getn p n))) as [r Hr].
      destruct (node_outs_good s2 (NReal n) _ outn Hs2 (seqn_NoDup _ 0) Hout) as [Hno _].
      destruct (outs_good2 s s2 (NReal n) _ outn (trim (min_out (getn p n)) outn) Hs2 (seqn_NoDup _ 0) Hout) as [Hn1' Hw1'].
      { intros x Hx. rewrite Hr. apply in_or_app. now left. }
      { eapply sublist_prefix_NoDup; eauto. }
      assert (Hrs : Rsub s s2) by (intros x Hx; rewrite Er2; exact Hx).
      destruct (names_extend2 s0 s s2 done [NReal n] _ _ Hs2 He2 Hrs Hr0 HnL HwL Hn1' Hw1' Hdisj1) as [Hn2 Hw2].
      assert (Hsubs : NoDup ((done ++ [NReal n]) ++ flat_map (attr_spec (spec_all f)) (attrs (getn p n)))).
      { rewrite <- app_assoc. exact Hnd. }
      destruct (attr_fold_good2 nm _ _ _ _ _ _ _ _ _ s2 [] Hsg Hs2 (Rsub_refl s2)) as (Hs3 & He3 & Hr3 & Hn3 & Hw3).
      { cbn. constructor. } { apply WN_nil. } { cbn [app]. apply NoDup_app_right in Hsubs. exact Hsubs. }
      cbn [app] in Hw3.
      destruct (names_extend2 s0 s2 s' (done ++ [NReal n]) (flat_map (attr_spec (spec_all f)) (attrs (getn p n))) _ (nonempty (al_defs al))
                  Hs3 He3 Hr3 (Rsub_trans _ _ _ Hr0 Hrs) Hn2 Hw2 Hn3 Hw3) as [Hn4 Hw4].
      { intros x Hx Hc. exact (NoDup_app_disj _ _ Hsubs x Hx Hc). }
      split; [exact Hs3|]. split; [eapply Rsub_trans; [exact Hr0|eapply Rsub_trans; eauto]|].
      rewrite <- !app_assoc in Hn4. rewrite <- !app_assoc in Hw4. cbn [app] in Hw4. fold (al_defs al). split; assumption.
  - unfold compile_step in Hu. rewrite Ea in Hu.
    apply bind_ok in Hu. destruct Hu as [s2 [Hu2 Hu]]. pose proof (P0_su p un s s _ _ _ Hu2 (P0_refl s Hs)) as [Hs2 He2].
    pose proof (scope_update_reserved _ _ _ _ _ _ Hu2) as Er2.
    apply bind_ok in Hu. destruct Hu as [nm [_ Hu]]. apply bind_ok in Hu. destruct Hu as [i [_ Hu]].
    apply bind_ok in Hu. destruct Hu as [o [Ho Hu]]. inversion Hu; subst. unfold J2. rewrite defs_snoc2. cbn [defs_node node_subs].
    destruct (node_outs_good s' (NIntro g') _ o Hs2 (seqn_NoDup _ 0) Ho) as [Hno _].
    destruct (outs_good2 s s' (NIntro g') _ o o Hs2 (seqn_NoDup _ 0) Ho (fun x H => H) Hno) as [Hn1 Hw1].
    assert (Hrs : Rsub s s') by (intros x Hx; rewrite Er2; exact Hx).
    destruct (names_extend2 s0 s s' done [NIntro g'] _ _ Hs2 He2 Hrs Hr0 HnL HwL Hn1 Hw1 Hdisj1) as [Hn2 Hw2].
    split; [exact Hs2|]. split; [eapply Rsub_trans; eauto|]. split; assumption.
Qed.

Lemma fold_J2 prefix s0 : forall l done acc acc',
  foldM (compile_step p un fbuild rec prefix) l acc = inl acc' -> NoDup (done ++ flat_map (node_spec p (spec_all f)) l) -> J2 s0 done acc ->
  J2 s0 (done ++ flat_map (node_spec p (spec_all f)) l) acc'.
Proof. induction l as [|u t IH]; intros done acc acc' H Hn HJ; cbn [foldM flat_map] in *.
  - inversion H; subst. now rewrite app_nil_r.
  - apply bind_ok in H. destruct H as [acc1 [H1 H2]]. rewrite app_assoc in *.
    eapply IH; [exact H2|exact Hn|]. eapply step_J2; [exact H1| |exact HJ]. exact (NoDup_app_left _ _ Hn). Qed.
End Step.

Lemma args_fold_inv prefix : forall (l : list var) s s1,
  foldM (fun s a => scope_update p un s (vnode a) prefix) l s = inl s1 -> ScopeInv s -> ScopeInv s1 /\ reserved s1 = reserved s.
Proof. induction l as [|a t IHl]; intros s s1 H1 Hs; cbn [foldM] in H1.
  - inversion H1; subst. split; [exact Hs|reflexivity].
  - apply bind_ok in H1. destruct H1 as [s2 [Hu H1]]. destruct (IHl s2 s1 H1 (scope_update_scopeinv _ _ _ _ _ _ Hu Hs)) as [A B].
    split; [exact A|]. rewrite B. eapply scope_update_reserved; eauto. Qed.

Theorem compile_global2 : forall fuel s g prefix vi mg s' rq fs,
  compile p un args_of own_of fbuild fuel s g prefix vi = inl (mg, s', rq, fs) -> ScopeInv s -> NoDup (spec_all fuel g) ->
  GoodG2 s s' mg (spec_all fuel g).
Proof.
  induction fuel as [|f IH]; intros s g prefix vi mg s' rq fs H Hs Hnd; [discriminate H|].
  pose proof (compile_ext p un args_of own_of fbuild s _ _ _ _ _ _ _ _ _ H (Ext_refl s)) as Hext.
  pose proof (compile_Rsub _ _ _ _ _ _ _ _ _ _ _ _ _ _ H) as Hrsub.
  cbn [Build.compile] in H. cbn [GlobalFacts.spec_all] in Hnd |- *.
  apply bind_ok in H. destruct H as [s1 [H1 H]].
  pose proof (args_fold_inv prefix _ _ _ H1 Hs) as Hs1.
  destruct Hs1 as [Hs1 Er1].
  apply bind_ok in H. destruct H as [[[[[ms s3] rq3] fs0] sfs] [H2 H]].
  assert (HJ' : ScopeInv s3 /\ NoDup (nonempty (flat_map defs_node ms)) /\
                WN s s3 (flat_map (node_spec p (spec_all f)) (own_of g)) (nonempty (flat_map defs_node ms))).
  { pose proof (fold_J2 f (compile p un args_of own_of fbuild f) IH prefix s (own_of g) [] _ _ H2 (NoDup_app_right _ _ Hnd)) as HJ2. cbn [app] in HJ2.
    assert (HJ0 : J2 s [] ([], s1, [], [], [])).
    { split; [exact Hs1|]. split; [intros x Hx; rewrite Er1; exact Hx|]. split; [constructor|apply WN_nil]. }
    destruct (HJ2 HJ0) as (A & _ & B & C). split; [exact A|]. split; assumption. }
  destruct HJ' as (Hs3 & Hnm & Hwm).
  destruct (Nat.eqb (List.length (gres (getg p g))) 0); [discriminate H|].
  apply bind_ok in H. destruct H as [ai [Hai H]]. apply bind_ok in H. destruct H as [ro [_ H]]. inversion H; subst.
  destruct (args_good p vi s' (args_of g) ai Hs3 (NoDup_app_left _ _ Hnd) Hai) as [Hna Hwa].
  assert (Hna' : NoDup (nonempty (map fst ai))) by now apply NoDup_nonempty.
  assert (Hwa' : W s' (map vnode (args_of g)) (nonempty (map fst ai))) by (eapply W_sub; [apply nonempty_sub|exact Hwa]).
  destruct (names_join s s' (map vnode (args_of g)) (flat_map (node_spec p (spec_all f)) (own_of g)) _ _ Hs3 Hna' Hwa' Hnm Hwm (NoDup_app_disj _ _ Hnd)) as [Hn Hw].
  split; [exact Hs3|]. split; [exact Hext|]. split; [exact Hrsub|]. cbn [defs_graph]. rewrite nonempty_app. split; assumption.
Qed.
End Global2.

(* ---------- the premises, decidable ---------- *)
Definition inline_ok_b (n : nat) (operands : list (option var)) (gi : list String.string) (body : list onode) : bool :=
  forallb (fun d => match index_last d gi 0 None with None => true | Some _ => false end) (flat_map odefs_node body) &&
  nodupb String.eqb (flat_map odefs_node body) &&
  forallb (fun ov : option var => match ov with Some (V (NReal m) _) => negb (Nat.eqb m n) | _ => true end) operands.
Lemma inline_ok_b_sound n operands gi body : inline_ok_b n operands gi body = true -> inline_ok n operands gi body.
Proof. unfold inline_ok_b. intros H. apply andb_prop in H. destruct H as [H H3]. apply andb_prop in H. destruct H as [H1 H2]. split; [|split].
  - intros d Hd. rewrite forallb_forall in H1. specialize (H1 d Hd). destruct (index_last d gi 0 None); [discriminate|reflexivity].
  - exact (nodupb_NoDup String.eqb String.eqb_spec _ H2).
  - intros i v k Hn ->. rewrite forallb_forall in H3.
    assert (Hin : In (Some (V (NReal n) k)) operands).
    { destruct (Nat.lt_ge_cases i (List.length operands)) as [Hlt|Hge]; [rewrite <- Hn; now apply nth_In|rewrite nth_overflow in Hn by exact Hge; discriminate]. }
    specialize (H3 _ Hin). cbn in H3. rewrite Nat.eqb_refl in H3. discriminate. Qed.

Definition inlines_ok_b (p : prog) : bool :=
  forallb (fun n => match kind (getn p n) with
                    | KInline (OGraph gi _ body _ _) _ => inline_ok_b n (ins (getn p n)) gi body
                    | _ => true end) (seq 0 (List.length (nodes p))).
Lemma inlines_ok_b_sound p : inlines_ok_b p = true ->
  forall n gi gin body go_ vi imp, kind (getn p n) = KInline (OGraph gi gin body go_ vi) imp -> inline_ok n (ins (getn p n)) gi body.
Proof. unfold inlines_ok_b. intros H n gi gin body go_ vi imp Hk. rewrite forallb_forall in H.
  destruct (Nat.lt_ge_cases n (List.length (nodes p))) as [Hlt|Hge].
  - assert (Hin : In n (seq 0 (List.length (nodes p)))) by (apply in_seq; lia). specialize (H _ Hin). rewrite Hk in H. now apply inline_ok_b_sound.
  - unfold getn in Hk. rewrite nth_overflow in Hk by exact Hge. cbn in Hk. discriminate. Qed.

Definition global_premises2_b (p : prog) (main : nat) : bool :=
  match discover (fuel_of p) p dstate0 main with
  | inl d => inlines_ok_b p &&
             nodupb nref_eqb (GlobalFacts.spec_all p (fun g => getl g (d_args d)) (own_of_def p d main) (fuel_of p) main)
  | inr _ => false end.

(* ---------- instantiated at Builder.build_main / the public build ---------- *)
Theorem build_main_global2 vi ffuel p un main b :
  build_main_gen vi ffuel p un main = inl b -> global_premises2_b p main = true -> NoDup (nonempty (defs_graph (b_graph b))).
Proof. destruct ffuel as [|ff]; [discriminate|]. cbn [build_main_gen]. intros H Hp.
  apply bind_ok in H. destruct H as [d [Hd H]]. apply bind_ok in H. destruct H as [[[[mg s] rq] fs] [Hc H]].
  inversion H; subst. cbn [b_graph]. unfold global_premises2_b in Hp. rewrite Hd in Hp. apply andb_prop in Hp. destruct Hp as [Hi Hn].
  apply (nodupb_NoDup nref_eqb nref_eqb_spec) in Hn.
  destruct (compile_global2 p un _ _ _ (inlines_ok_b_sound p Hi) _ _ _ _ _ _ _ _ _ Hc scope0_inv Hn) as (_ & _ & _ & Hnd & _). exact Hnd. Qed.

Theorem build_public_global2 p r m inputs outputs :
  build_public p r = inl m -> all_vars (r_inputs r) = Some inputs -> all_vars (r_outputs r) = Some outputs ->
  exists args, (r_drop r = false -> args = map snd inputs) /\ (forall a, In a args -> In a (map snd inputs)) /\
    (global_premises2_b (with_main p (Some args) outputs) 0 = true -> NoDup (nonempty (defs_graph (mmain m)))).
Proof.
  unfold build_public. intros H Hi Ho. rewrite Hi, Ho in H.
  destruct (negb _); [discriminate|]. destruct outputs as [|o os]; [discriminate|].
  apply bind_ok in H. destruct H as [args [Ha H]]. apply bind_ok in H. destruct H as [b [Hb H]].
  apply bind_ok in H. destruct H as [m' [Hm H]]. pose proof (to_model_struct _ _ Hm) as (_ & Hmg & _).
  destruct (mmain m') as [gi body go_] eqn:Eg. destruct (forallb _ gi); [|discriminate]. inversion H; subst m'. rewrite Eg.
  exists args. split; [intros Hd; rewrite Hd in Ha; inversion Ha; reflexivity|]. split.
  - destruct (r_drop r).
    + apply bind_ok in Ha. destruct Ha as [b1 [_ Ha]]. destruct (forallb _ (b_args b1)); [|discriminate]. inversion Ha; subst.
      intros a Hin. apply filter_In in Hin. tauto.
    + inversion Ha; subst. auto.
  - intros Hp. rewrite Hmg. unfold build_main in Hb. eapply build_main_global2; eauto.
Qed.

Definition global_premises2_req (p : prog) (r : request) : bool :=
  match all_vars (r_inputs r), all_vars (r_outputs r) with
  | Some i, Some o => global_premises2_b (final_prog p r i o) 0
  | _, _ => false end.
