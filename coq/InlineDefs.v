(* InlineDefs.v — the names defined INSIDE an inlined block are, by construction, either outputs of the Inline node itself (table
   entries of its own Vars) or names RESERVED for the block - hence (ScopeFacts: reserved names never name a Var) they can never
   collide with the name of any graph input or node output of the surrounding model.  Premise: the inlined model does not define a
   value under the name of one of its own inputs (true of every valid ONNX model).  (C02 / C08) *)
From Coq Require Import List String NArith Arith Bool Lia.
From Spox Require Import Base IR Show Build Sem Plan Named Validate BuildFacts CompilePres ScopeFacts.
Import ListNotations.
Open Scope list_scope.

(* names defined inside the foreign graph, mirroring Validate.defs_raw on the renamed side *)
Fixpoint odefs_node (n : onode) : list String.string :=
  match n with ONode _ _ _ _ o sl =>
    o ++ flat_map (fun ks => match snd ks with
                             | Some (OGraph gi ginit b _ _) => gi ++ ginit ++ flat_map odefs_node b
                             | None => [] end) sl end.
Definition odefs_graph (g : ograph) : list String.string :=
  match g with OGraph gi ginit b _ _ => gi ++ ginit ++ flat_map odefs_node b end.

Section Ren.
Variables (nm : String.string) (u : nref) (operands : list (option var)) (in_names out_names : list String.string).
Notation rv := (rename_val nm u operands in_names out_names).
Notation ron := (rename_onode nm u operands in_names out_names).
Notation rog := (rename_ograph nm u operands in_names out_names).

(* [r] is what the inner name [d] is renamed to in state [st] *)
Definition Rn (st : rstate) (d r : String.string) : Prop :=
  let '(sc, vt, nt) := st in
  match index_last d in_names 0 None with
  | Some i => exists v, nth i operands None = Some v /\ lookup var_eqb v (vname sc) = Some r
  | None => match index_last d out_names 0 None with
            | Some k => lookup var_eqb (V u k) (vname sc) = Some r
            | None => lookup String.eqb d vt = Some r end end.

(* later states: same Var table, the rename table only gains NEW keys, the reserved set only grows *)
Definition St_le (st st' : rstate) : Prop :=
  let '(sc, vt, nt) := st in let '(sc', vt', nt') := st' in
  vname sc' = vname sc /\ (forall d r, lookup String.eqb d vt = Some r -> lookup String.eqb d vt' = Some r) /\
  (forall x, In x (reserved sc) -> In x (reserved sc')).
Lemma St_le_refl st : St_le st st. Proof. destruct st as [[sc vt] nt]. cbn. auto. Qed.
Lemma St_le_trans a b c : St_le a b -> St_le b c -> St_le a c.
Proof. destruct a as [[sa va] na], b as [[sb vb] nb], c as [[sc vc] ncc]. cbn. intros (E1 & L1 & R1) (E2 & L2 & R2). split; [congruence|]. split; auto. Qed.
Lemma Rn_mono st st' d r : St_le st st' -> Rn st d r -> Rn st' d r.
Proof. destruct st as [[sc vt] nt], st' as [[sc' vt'] nt']. cbn. intros (E & L & _).
  destruct (index_last d in_names 0 None); [rewrite E; auto|]. destruct (index_last d out_names 0 None); [rewrite E; auto|]. auto. Qed.

(* rename-table invariant: values are "" or reserved, and no non-empty value is shared by two keys *)
Definition InvVt (st : rstate) : Prop :=
  let '(sc, vt, nt) := st in
  (forall d r, lookup String.eqb d vt = Some r -> r = ""%string \/ In r (reserved sc)) /\
  (forall d d' r, lookup String.eqb d vt = Some r -> lookup String.eqb d' vt = Some r -> r <> ""%string -> d = d').

Lemma reserve_free_fresh fuel base : forall r sc r' sc', reserve_free fuel base r sc = inl (r', sc') ->
  vname sc' = vname sc /\ reserved sc' = reserved sc ++ [r'] /\ ~ In r' (reserved sc).
Proof. induction fuel as [|f IH]; intros r sc r' sc' H; cbn [reserve_free] in H.
  - destruct (name_taken sc r) eqn:E; [discriminate|]. inversion H; subst. cbn. split; [reflexivity|]. split; [reflexivity|].
    unfold name_taken in E. apply orb_false_elim in E. destruct E as [E _]. now apply (mem_nIn String.eqb String.eqb_spec) in E.
  - destruct (name_taken sc r) eqn:E.
    + destruct (enum (vcnt sc) base) as [r2 vc2]. destruct (IH _ _ _ _ H) as (E1 & E2 & E3). cbn in *. auto.
    + inversion H; subst. cbn. split; [reflexivity|]. split; [reflexivity|].
      unfold name_taken in E. apply orb_false_elim in E. destruct E as [E _]. now apply (mem_nIn String.eqb String.eqb_spec) in E. Qed.

Lemma reserve_free_facts fuel base : forall r sc r' sc', reserve_free fuel base r sc = inl (r', sc') ->
  vname sc' = vname sc /\ (forall x, In x (reserved sc) -> In x (reserved sc')) /\ In r' (reserved sc').
Proof. induction fuel as [|f IH]; intros r sc r' sc' H; cbn [reserve_free] in H.
  - destruct (name_taken sc r); [discriminate|]. inversion H; subst. cbn. split; [reflexivity|]. split; [intros x Hx; apply in_or_app; now left|apply in_or_app; right; now left].
  - destruct (name_taken sc r).
    + destruct (enum (vcnt sc) base) as [r2 vc2]. destruct (IH _ _ _ _ H) as (E & I1 & I2). cbn in *. auto.
    + inversion H; subst. cbn. split; [reflexivity|]. split; [intros x Hx; apply in_or_app; now left|apply in_or_app; right; now left]. Qed.
Lemma reserve_prefixed_facts sc name r sc' : reserve_prefixed nm sc name = inl (r, sc') ->
  vname sc' = vname sc /\ (forall x, In x (reserved sc) -> In x (reserved sc')) /\ (r = ""%string \/ In r (reserved sc')).
Proof. unfold reserve_prefixed. destruct (String.eqb name ""); [intros H; inversion H; subst; auto|].
  destruct (maybe_enum (vcnt sc) (nm ++ "__" ++ name))%string as [r0 vc]. intros H. apply reserve_free_facts in H. cbn in H. destruct H as (E & I1 & I2). auto. Qed.

Lemma rename_val_facts st name r st' : rv st name = inl (r, st') -> InvVt st -> St_le st st' /\ InvVt st' /\ Rn st' name r.
Proof. unfold rename_val. destruct st as [[sc vt] nt]. intros H Hi. cbn [Rn].
  destruct (index_last name in_names 0 None) as [i|] eqn:Ei.
  - destruct (nth i operands None) as [v|] eqn:En; [|discriminate]. apply bind_ok in H. destruct H as [x [Hv H]]. inversion H; subst.
    split; [apply St_le_refl|]. split; [exact Hi|]. cbn. rewrite Ei. exists v. split; [exact En|]. unfold vlook in Hv. destruct (lookup var_eqb v (vname sc)); [now inversion Hv|discriminate].
  - destruct (index_last name out_names 0 None) as [k|] eqn:Ek.
    + apply bind_ok in H. destruct H as [x [Hv H]]. inversion H; subst. split; [apply St_le_refl|]. split; [exact Hi|]. cbn. rewrite Ei, Ek.
      unfold vlook in Hv. destruct (lookup var_eqb (V u k) (vname sc)); [now inversion Hv|discriminate].
    + destruct (lookup String.eqb name vt) as [r0|] eqn:El.
      * inversion H; subst. split; [apply St_le_refl|]. split; [exact Hi|]. cbn. now rewrite Ei, Ek.
      * apply bind_ok in H. destruct H as [[r0 sc0] [Hr H]]. inversion H; subst. cbn [fst snd]. destruct Hi as [H1 H2].
        assert (Hle : vname sc0 = vname sc /\ (forall x, In x (reserved sc) -> In x (reserved sc0))).
        { apply reserve_prefixed_facts in Hr. tauto. }
        split; [|split].
        -- cbn. split; [apply Hle|]. split; [|apply Hle]. intros d x Hd. unfold lookup in *. cbn. destruct (String.eqb_spec d name) as [->|]; [rewrite El in Hd; discriminate|exact Hd].
        -- unfold reserve_prefixed in Hr. destruct (String.eqb name "") eqn:En.
           ++ inversion Hr; subst. split.
              ** intros d x Hd. unfold lookup in Hd. cbn in Hd. destruct (String.eqb d name); [cbn in Hd; inversion Hd; now left|exact (H1 d x Hd)].
              ** intros d d' x Hd Hd' Hx. unfold lookup in Hd, Hd'. cbn in Hd, Hd'.
                 destruct (String.eqb d name); [cbn in Hd; inversion Hd; congruence|]. destruct (String.eqb d' name); [cbn in Hd'; inversion Hd'; congruence|]. eapply H2; eauto.
           ++ destruct (maybe_enum (vcnt sc) (nm ++ "__" ++ name))%string as [c vc]. apply reserve_free_fresh in Hr. cbn in Hr. destruct Hr as (Ev & Er & Hf). split.
              ** intros d x Hd. unfold lookup in Hd. cbn in Hd. destruct (String.eqb d name).
                 --- cbn in Hd. inversion Hd; subst. right. rewrite Er. apply in_or_app. right. now left.
                 --- destruct (H1 d x Hd) as [->|Hin]; [now left|right; rewrite Er; apply in_or_app; now left].
              ** intros d d' x Hd Hd' Hx. unfold lookup in Hd, Hd'. cbn in Hd, Hd'.
                 destruct (String.eqb_spec d name) as [->|Hn1], (String.eqb_spec d' name) as [->|Hn2]; cbn in Hd, Hd'.
                 --- reflexivity.
                 --- inversion Hd; subst. exfalso. destruct (H1 d' _ Hd') as [E|Hin]; [congruence|exact (Hf Hin)].
                 --- inversion Hd'; subst. exfalso. destruct (H1 d _ Hd) as [E|Hin]; [congruence|exact (Hf Hin)].
                 --- eapply H2; eauto.
        -- cbn. rewrite Ei, Ek. unfold lookup. cbn. now rewrite String.eqb_refl.
Qed.
Lemma rename_node_facts st name r st' : rename_node nm st name = inl (r, st') -> InvVt st -> St_le st st' /\ InvVt st'.
Proof. unfold rename_node. destruct st as [[sc vt] nt]. intros H Hi. destruct (String.eqb name ""); [inversion H; subst; split; [apply St_le_refl|exact Hi]|].
  destruct (lookup String.eqb name nt); [inversion H; subst; split; [apply St_le_refl|exact Hi]|].
  apply bind_ok in H. destruct H as [[r0 sc0] [Hr H]]. inversion H; subst. apply reserve_prefixed_facts in Hr. destruct Hr as (E & I1 & _). cbn [fst snd]. split.
  - cbn. auto.
  - destruct Hi as [H1 H2]. split; [|exact H2]. intros d x Hd. destruct (H1 d x Hd) as [->|Hin]; auto. Qed.

(* a list of names renamed one after the other: every result is the renaming (in the final state) of the name at its position *)
Lemma mapS_rv_facts : forall l st rs st', mapS rv st l = inl (rs, st') -> InvVt st ->
  St_le st st' /\ InvVt st' /\ Forall2 (Rn st') l rs.
Proof. induction l as [|a t IH]; intros st rs st' H Hi; cbn [mapS] in H.
  - inversion H; subst. split; [apply St_le_refl|]. split; [exact Hi|constructor].
  - apply bind_ok in H. destruct H as [[r1 st1] [H1 H]]. apply bind_ok in H. destruct H as [[r2 st2] [H2 H]]. inversion H; subst. cbn [fst snd] in *.
    destruct (rename_val_facts _ _ _ _ H1 Hi) as (L1 & I1 & R1). destruct (IH _ _ _ H2 I1) as (L2 & I2 & F2).
    split; [eapply St_le_trans; eauto|]. split; [exact I2|]. constructor; [eapply Rn_mono; eauto|exact F2]. Qed.

Lemma mapM_Forall2_in {A B} (f : A -> res B) (R : A -> B -> Prop) :
  forall l r, (forall a b, In a l -> f a = inl b -> R a b) -> mapM f l = inl r -> Forall2 R l r.
Proof. induction l as [|a t IH]; intros r Hf H; cbn [mapM] in H; [inversion H; constructor|].
  apply bind_ok in H. destruct H as [b [Hb H]]. apply bind_ok in H. destruct H as [bs [Hbs H]]. inversion H; subst.
  constructor; [apply Hf; [now left|exact Hb]|]. apply IH; [|exact Hbs]. intros a0 b0 Hin. apply Hf. now right. Qed.

Lemma Forall2_In_r {A B} (R : A -> B -> Prop) l r : Forall2 R l r -> forall y, In y r -> exists x, In x l /\ R x y.
Proof. intros HF. induction HF as [|a b l r Hab HF IH]; intros y Hy; [destruct Hy|]. destruct Hy as [<-|Hy]; [exists a; split; [now left|exact Hab]|].
  destruct (IH y Hy) as [x [Hx Hr]]. exists x. split; [now right|exact Hr]. Qed.

(* covering relation: every renamed definition comes from an inner definition *)
Definition Cov (st : rstate) (inner renamed : list String.string) : Prop :=
  forall x, In x renamed -> exists d, In d inner /\ Rn st d x.
Lemma Cov_mono st st' i r : St_le st st' -> Cov st i r -> Cov st' i r.
Proof. intros L H x Hx. destruct (H x Hx) as [d [Hd Hr]]. exists d. split; [exact Hd|eapply Rn_mono; eauto]. Qed.
Lemma Cov_app st i1 r1 i2 r2 : Cov st i1 r1 -> Cov st i2 r2 -> Cov st (i1 ++ i2) (r1 ++ r2).
Proof. intros H1 H2 x Hx. apply in_app_or in Hx. destruct Hx as [Hx|Hx]; [destruct (H1 x Hx) as [d [Hd Hr]]|destruct (H2 x Hx) as [d [Hd Hr]]];
  exists d; (split; [apply in_or_app; auto|exact Hr]). Qed.
Lemma Cov_F2 st l rs : Forall2 (Rn st) l rs -> Cov st l rs.
Proof. intros HF x Hx. exact (Forall2_In_r _ _ _ HF x Hx). Qed.
Lemma Cov_sub st i r r' : (forall x, In x r' -> In x r) -> Cov st i r -> Cov st i r'.
Proof. intros Hs H x Hx. apply H. auto. Qed.
Lemma Cov_nil st i : Cov st i []. Proof. intros x []. Qed.

Definition rawg_defs (g : mrawgraph) : list String.string :=
  match g with MRawGraph gi ginit b _ => gi ++ ginit ++ flat_map defs_raw b end.

Definition Pg (g : ograph) : Prop :=
  forall st r st', rog st g = inl (r, st') -> InvVt st -> St_le st st' /\ InvVt st' /\ Cov st' (odefs_graph g) (rawg_defs r).
Definition Qn (n : onode) : Prop :=
  forall st r st', ron st n = inl (r, st') -> InvVt st -> St_le st st' /\ InvVt st' /\ Cov st' (odefs_node n) (defs_raw r).

Lemma HG_defs : forall gi gin b go_ vi, Forall Qn b -> Pg (OGraph gi gin b go_ vi).
Proof. unfold Pg, Qn.
  intros gi gin b go_ vi HF st r st' H Hi. cbn [rename_ograph] in H.
    apply bind_ok in H. destruct H as [[r1 s1] [H1 H]]. apply bind_ok in H. destruct H as [[r2 s2] [H2 H]].
    apply bind_ok in H. destruct H as [[r3 s3] [H3 H]]. apply bind_ok in H. destruct H as [[r4 s4] [H4 H]].
    apply bind_ok in H. destruct H as [[r5 s5] [H5 H]]. inversion H; subst. cbn [fst snd] in *.
    destruct (mapS_rv_facts _ _ _ _ H1 Hi) as (L1 & I1 & F1). destruct (mapS_rv_facts _ _ _ _ H2 I1) as (L2 & I2 & F2).
    assert (Hb : St_le s2 s3 /\ InvVt s3 /\ Cov s3 (flat_map odefs_node b) (flat_map defs_raw r3)).
    { clear - HF H3 I2. revert s2 r3 s3 H3 I2. induction b as [|n t IH]; intros s2 r3 s3 H3 I2.
      - inversion H3; subst. split; [apply St_le_refl|]. split; [exact I2|apply Cov_nil].
      - inversion HF as [|x l Hn Ht]; subst. apply bind_ok in H3. destruct H3 as [[rn sn] [Hn1 H3]].
        apply bind_ok in H3. destruct H3 as [[rt st2] [Ht1 H3]]. inversion H3; subst. cbn [fst snd flat_map] in *.
        destruct (Hn _ _ _ Hn1 I2) as (La & Ia & Ca). destruct (IH Ht _ _ _ Ht1 Ia) as (Lb & Ib & Cb).
        split; [eapply St_le_trans; eauto|]. split; [exact Ib|]. apply Cov_app; [eapply Cov_mono; eauto|exact Cb]. }
    destruct Hb as (L3 & I3 & C3).
    destruct (mapS_rv_facts _ _ _ _ H4 I3) as (L4 & I4 & _). destruct (mapS_rv_facts _ _ _ _ H5 I4) as (L5 & I5 & _).
    assert (L35 : St_le s3 st') by (eapply St_le_trans; eauto).
    split; [eapply St_le_trans; [exact L1|eapply St_le_trans; [exact L2|eapply St_le_trans; [exact L3|exact L35]]]|]. split; [exact I5|].
    cbn [odefs_graph rawg_defs]. apply Cov_app; [|apply Cov_app].
    + eapply Cov_mono; [|apply Cov_F2; exact F1]. eapply St_le_trans; [exact L2|eapply St_le_trans; [exact L3|exact L35]].
    + eapply Cov_mono; [|apply Cov_F2; exact F2]. eapply St_le_trans; [exact L3|exact L35].
    + eapply Cov_mono; [exact L35|exact C3].
Qed.
Lemma HN_defs : forall nm0 op d i o al,
  Forall (fun ka : String.string * option ograph => match snd ka with Some g => Pg g | None => True end) al -> Qn (ONode nm0 op d i o al).
Proof. unfold Pg, Qn.
  intros nm0 op d i o al HF st r st' H Hi. cbn [rename_onode] in H.
    apply bind_ok in H. destruct H as [[r1 s1] [H1 H]]. apply bind_ok in H. destruct H as [[r2 s2] [H2 H]].
    apply bind_ok in H. destruct H as [[r3 s3] [H3 H]]. apply bind_ok in H. destruct H as [[r4 s4] [H4 H]]. inversion H; subst. cbn [fst snd] in *.
    destruct (rename_node_facts _ _ _ _ H1 Hi) as (L1 & I1). destruct (mapS_rv_facts _ _ _ _ H2 I1) as (L2 & I2 & _).
    destruct (mapS_rv_facts _ _ _ _ H3 I2) as (L3 & I3 & F3).
    assert (Ha : St_le s3 st' /\ InvVt st' /\
                 Cov st' (flat_map (fun ks : String.string * option ograph => match snd ks with Some (OGraph gi ginit b _ _) => gi ++ ginit ++ flat_map odefs_node b | None => [] end) al)
                         (flat_map (fun ks : String.string * option mrawgraph => match snd ks with Some (MRawGraph gi ginit b _) => gi ++ ginit ++ flat_map defs_raw b | None => [] end) r4)).
    { clear - HF H4 I3. revert s3 r4 st' H4 I3. induction al as [|[k [g|]] t IH]; intros s3 r4 st' H4 I3.
      - inversion H4; subst. split; [apply St_le_refl|]. split; [exact I3|apply Cov_nil].
      - inversion HF as [|x l Hg Ht]; subst. cbn [snd] in Hg. apply bind_ok in H4. destruct H4 as [[rg sg] [Hg1 H4]].
        apply bind_ok in H4. destruct H4 as [[rt st2] [Ht1 H4]]. inversion H4; subst. cbn [fst snd flat_map] in *.
        destruct (Hg _ _ _ Hg1 I3) as (La & Ia & Ca). destruct (IH Ht _ _ _ Ht1 Ia) as (Lb & Ib & Cb).
        split; [eapply St_le_trans; eauto|]. split; [exact Ib|]. apply Cov_app; [|exact Cb].
        eapply Cov_mono; [exact Lb|]. destruct g as [gi gin b go_ vi]. destruct rg as [a1 a2 a3 a4]. exact Ca.
      - inversion HF as [|x l Hg Ht]; subst. apply bind_ok in H4. destruct H4 as [[rt st2] [Ht1 H4]]. inversion H4; subst. cbn [fst snd flat_map app] in *.
        eapply IH; eauto. }
    destruct Ha as (L4 & I4 & C4).
    split; [eapply St_le_trans; [exact L1|eapply St_le_trans; [exact L2|eapply St_le_trans; [exact L3|exact L4]]]|]. split; [exact I4|].
    cbn [odefs_node defs_raw]. apply Cov_app; [|exact C4].
    eapply Cov_sub; [|eapply Cov_mono; [exact L4|apply Cov_F2; exact F3]]. intros x Hx. unfold nonempty in Hx. apply filter_In in Hx. tauto.
Qed.
Lemma rename_graph_defs g : Pg g. Proof. exact (CompilePres.ograph_ind' Pg Qn HG_defs HN_defs g). Qed.
Lemma rename_node_defs n : Qn n. Proof. exact (CompilePres.onode_ind' Pg Qn HG_defs HN_defs n). Qed.

(* the loop over the body of the inlined model, as written in compile *)
Lemma body_loop_defs : forall body st rb st',
  (fix go (st : rstate) (l : list onode) {struct l} : res (list mraw * rstate) :=
     match l with
     | [] => ret ([], st)
     | n :: t => do rn <- ron st n ;; do rt <- go (snd rn) t ;; ret (fst rn :: fst rt, snd rt)
     end) st body = inl (rb, st') -> InvVt st ->
  St_le st st' /\ InvVt st' /\ Cov st' (flat_map odefs_node body) (flat_map defs_raw rb).
Proof. induction body as [|n t IH]; intros st rb st' H Hi.
  - inversion H; subst. split; [apply St_le_refl|]. split; [exact Hi|apply Cov_nil].
  - apply bind_ok in H. destruct H as [[rn sn] [Hn1 H]]. apply bind_ok in H. destruct H as [[rt st2] [Ht1 H]]. inversion H; subst. cbn [fst snd flat_map] in *.
    destruct (rename_node_defs n _ _ _ Hn1 Hi) as (La & Ia & Ca). destruct (IH _ _ _ Ht1 Ia) as (Lb & Ib & Cb).
    split; [eapply St_le_trans; eauto|]. split; [exact Ib|]. apply Cov_app; [eapply Cov_mono; eauto|exact Cb]. Qed.
End Ren.

(* ---------- the loop step that emits an inlined block ---------- *)
Definition inner_defs_ok (gi : list String.string) (body : list onode) : Prop :=
  forall d, In d (flat_map odefs_node body) -> index_last d gi 0 None = None.

Theorem inline_step_defs p un fbuild rec prefix ms s rq fs sfs n acc' gi gin body go_ vi imp :
  compile_step p un fbuild rec prefix (ms, s, rq, fs, sfs) (NReal n) = inl acc' ->
  is_arg p (NReal n) = false -> kind (getn p n) = KInline (OGraph gi gin body go_ vi) imp -> inner_defs_ok gi body ->
  let '(ms', s', _, _, _) := acc' in
  exists nm inn outn b, ms' = ms ++ [MInline nm (NReal n) inn outn b] /\
    forall x, In x (flat_map defs_raw b) ->
      x = ""%string \/ In x (reserved s') \/ exists k, lookup var_eqb (V (NReal n) k) (vname s') = Some x.
Proof.
  intros Hu Ea Hk Hok. destruct acc' as [[[[ms' s'] rq'] fs'] sfs']. unfold compile_step in Hu. rewrite Ea in Hu.
  apply bind_ok in Hu. destruct Hu as [[rqm fsm] [_ Hu]]. apply bind_ok in Hu. destruct Hu as [s2 [_ Hu]]. rewrite Hk in Hu.
  apply bind_ok in Hu. destruct Hu as [nm [_ Hu]].
  apply bind_ok in Hu. destruct Hu as [[ri sri] [Hri Hu]]. apply bind_ok in Hu. destruct Hu as [[rb srb] [Hrb Hu]].
  apply bind_ok in Hu. destruct Hu as [[ro sro] [Hro Hu]]. apply bind_ok in Hu. destruct Hu as [[rvi srvi] [Hrvi Hu]].
  apply bind_ok in Hu. destruct Hu as [ids [Hids Hu]]. apply bind_ok in Hu. destruct Hu as [inn [_ Hu]].
  apply bind_ok in Hu. destruct Hu as [outn [_ Hu]]. inversion Hu; subst. cbn [fst snd] in *.
  exists nm, inn, outn, (rb ++ List.concat ids). split; [reflexivity|].
  assert (I0 : InvVt (s2, [], [])) by (cbn; split; [intros d r Hd; discriminate Hd|intros d d' r Hd; discriminate Hd]).
  destruct (mapS_rv_facts nm (NReal n) (ins (getn p n)) gi go_ _ _ _ _ Hri I0) as (L1 & I1 & _).
  destruct (body_loop_defs nm (NReal n) (ins (getn p n)) gi go_ _ _ _ _ Hrb I1) as (L2 & I2 & C2).
  destruct (mapS_rv_facts nm (NReal n) (ins (getn p n)) gi go_ _ _ _ _ Hro I2) as (L3 & I3 & _).
  destruct (mapS_rv_facts nm (NReal n) (ins (getn p n)) gi go_ _ _ _ _ Hrvi I3) as (L4 & I4 & _).
  pose proof (St_le_trans _ _ _ L3 L4) as L34. pose proof (Cov_mono _ _ _ _ _ _ _ _ L34 C2) as Cf.
  destruct srvi as [[scf vtf] ntf]. cbn [fst] in *.
  intros x Hx. rewrite flat_map_app in Hx. apply in_app_or in Hx. destruct Hx as [Hx|Hx].
  - destruct (Cf x Hx) as [d [Hd Hr]]. cbn [Rn] in Hr. rewrite (Hok d Hd) in Hr.
    destruct (index_last d go_ 0 None) as [k|]; [right; right; exists k; exact Hr|].
    destruct (proj1 I4 d x Hr) as [->|Hin]; [now left|right; now left].
  - right. right. apply in_flat_map in Hx. destruct Hx as [r [Hr Hx]]. apply in_concat in Hr. destruct Hr as [l [Hl Hr]].
    (* l is one of the lists produced for the pass-through outputs *)
    assert (HF : Forall2 (fun k l0 => l0 = [] \/ exists a b0, l0 = [MRaw "" "Identity" "" [a] [b0] []] /\ lookup var_eqb (V (NReal n) k) (vname scf) = Some b0)
                         (seqn 0 (List.length go_)) ids).
    { eapply mapM_Forall2_in; [|exact Hids]. intros k l0 _ Hk0. cbn beta in Hk0.
      destruct (index_last (nth k go_ "") go_ 0 None) as [k'|]; [|inversion Hk0; now left].
      destruct (index_last (nth k go_ "") gi 0 None) as [i|]; [|inversion Hk0; now left].
      destruct (Nat.eqb k k'); [|inversion Hk0; now left].
      destruct (nth i (ins (getn p n)) None) as [v|]; [|discriminate].
      apply bind_ok in Hk0. destruct Hk0 as [a [_ Hk0]]. apply bind_ok in Hk0. destruct Hk0 as [b0 [Hb Hk0]]. inversion Hk0; subst.
      right. exists a, b0. split; [reflexivity|]. unfold vlook in Hb. destruct (lookup var_eqb (V (NReal n) k) (vname scf)); [now inversion Hb|discriminate]. }
    destruct (Forall2_In_r _ _ _ HF l Hl) as [k [_ [->|(a & b0 & -> & Hb)]]]; [destruct Hr|].
    destruct Hr as [<-|[]]. cbn in Hx. unfold nonempty in Hx. cbn in Hx. destruct (negb (String.eqb b0 "")); cbn in Hx; [|destruct Hx; tauto].
    destruct Hx as [<-|Hx]; [exists k; exact Hb|destruct Hx].
Qed.

(* a reserved name stays reserved through everything compile does afterwards ... *)
Theorem compile_reserved_persist p un args_of own_of fbuild x : forall fuel s g prefix vi mg s' rq fs,
  compile p un args_of own_of fbuild fuel s g prefix vi = inl (mg, s', rq, fs) -> In x (reserved s) -> In x (reserved s').
Proof.
  apply (CompilePres.compile_inv_leaf (fun s => In x (reserved s))).
  - intros s v n s' H Hs. unfold set_var in H. destruct (find _ (vname s)) as [[v' n']|].
    + destruct (var_eqb v v'); [|discriminate]. now inversion H; subst.
    + destruct (mem String.eqb n (reserved s)); [discriminate|]. destruct (lookup var_eqb v (vname s)); [discriminate|]. now inversion H; subst.
  - intros s w n s' H Hs. unfold set_node in H. destruct (find _ (nname s)) as [[w' n']|].
    + destruct (nref_eqb w w'); [|discriminate]. now inversion H; subst.
    + destruct (lookup nref_eqb w (nname s)); [discriminate|]. now inversion H; subst.
  - intros s c H. exact H.
  - intros s c H. exact H.
  - intros s r H _. cbn. apply in_or_app. now left.
Qed.
(* ... and (ScopeFacts) a reserved name is never the name of a Var: so the internal names of an inlined block cannot collide with any
   graph input or node output of the model built around it. *)
Corollary reserved_is_no_var_name s x v : ScopeInv s -> In x (reserved s) -> lookup var_eqb v (vname s) <> Some x.
Proof. intros (_ & _ & _ & Hr) Hx Hl. apply (Hr x Hx). apply (lookup_In var_eqb var_eqb_spec) in Hl. apply in_map_iff. exists (v, x). auto. Qed.
