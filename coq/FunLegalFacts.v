(* FunLegalFacts.v — C14's "a call means its body" without the model validator: the body of every FunctionProto a build returns - functions
   called from the main graph, from control-flow bodies, from other functions - is a plan whose well-formedness is PROVED from the build
   algorithm (LegalFacts.build_main_gen_plan_wf, carried to every depth of function nesting by FunInd), provided the body graph of the
   PROGRAM is legal (LegalFacts.legal_b, a decidable statement about the Python object graph only, evaluated on every generated function). *)
From Coq Require Import List String NArith Arith Bool Lia.
From Spox Require Import Base IR Show Build Sem Plan Named Validate BuildFacts SemFacts PlanFacts WfFacts LegalFacts FunInd FunCoverFacts.
Import ListNotations.
Open Scope list_scope.

Definition body_wf (p : prog) (body : nat) (bn : list mnode) : Prop :=
  legal_b p body = true ->
  wf (is_argP p) (insP p body) (subsP p body) (gargsP p) (gresP p) (noutsP p) (plan_of_graph p body (MGraph [] bn [])) [] [].

Lemma body_wf_built vi ff p un body b : build_main_gen vi ff p un body = inl b -> body_wf p body (body_nodes (b_graph b)).
Proof.
  intros H HL. pose proof (build_main_gen_plan_wf vi ff p un body b H HL) as W.
  destruct (b_graph b) as [ai ms ro]. cbn [body_nodes]. rewrite pog_unfold in W. now rewrite pog_unfold.
Qed.

Theorem build_main_functions_wf vi ffuel p un main b :
  build_main_gen vi ffuel p un main = inl b -> Forall (fun f => body_wf p (fd_bodyid f) (fd_body f)) (b_funs b).
Proof. exact (build_main_Q body_wf body_wf_built ffuel vi p un main b). Qed.

Theorem functions_mean_bodies_legal p r m inputs outputs :
  build_public p r = inl m -> all_vars (r_inputs r) = Some inputs -> all_vars (r_outputs r) = Some outputs ->
  exists args, (r_drop r = false -> args = map snd inputs) /\
    let p' := with_main p (Some args) outputs in
    forall f, In f (mfunctions m) -> legal_b p' (f_bodyid f) = true ->
    forall (val : Type) (dv : val) (opsem : nat -> list (option val) -> list (clos val) -> list val),
    (forall n ivs c1 c2, Forall2 (fun a b => forall av, a av = b av) c1 c2 -> opsem n ivs c1 = opsem n ivs c2) ->
    forall av,
    run_plan p' (f_bodyid f) val dv opsem (plan_of_graph p' (f_bodyid f) (MGraph [] (f_body f) [])) av =
    map (meaning p' (f_bodyid f) val dv opsem (bindv val dv (gargsP p' (f_bodyid f)) av)) (gresP p' (f_bodyid f)).
Proof.
  unfold build_public. intros H Hi Ho. rewrite Hi, Ho in H.
  destruct (negb _); [discriminate|]. destruct outputs as [|o os]; [discriminate|].
  apply bind_ok in H. destruct H as [args [Ha H]]. apply bind_ok in H. destruct H as [b [Hb H]].
  apply bind_ok in H. destruct H as [m' [Hm H]].
  destruct (mmain m') as [gi body0 go_] eqn:Eg. destruct (forallb _ gi); [|discriminate]. inversion H; subst m'.
  exists args. split; [intros Hd; rewrite Hd in Ha; inversion Ha; reflexivity|].
  set (p' := with_main p (Some args) (o :: os)) in *. intros d Hd HL val dv opsem Hext av. unfold build_main in Hb. pose proof (build_main_functions_wf _ _ _ _ _ _ Hb) as HF.
  unfold to_model in Hm. apply bind_ok in Hm. destruct Hm as [funs [Hf Hm]].
  destruct (struct_check (b_graph b)); [|discriminate]. cbn in Hm. destruct (forallb _ funs); [|discriminate]. inversion Hm; subst m. cbn [mfunctions] in Hd.
  destruct (fold_from _ _ _ _ Hf d Hd) as [[]|[f [Hfin ->]]]. cbn [function_proto f_body f_bodyid] in *.
  rewrite Forall_forall in HF. pose proof (HF f Hfin) as W. unfold body_wf in W. specialize (W HL).
  destruct (legal_split _ _ HL) as (_ & _ & L3 & _).
  exact (plan_sem_wf p' (fd_bodyid f) L3 val dv opsem Hext _ W av).
Qed.

Definition fun_legal_req (p : prog) (r : request) (m : model) : bool :=
  match all_vars (r_inputs r), all_vars (r_outputs r) with
  | Some i, Some o => forallb (fun f => legal_b (final_prog p r i o) (f_bodyid f)) (mfunctions m)
  | _, _ => false end.

(* the premise as evaluated by the harness: every function body of the model the MODEL build returns is legal *)
Definition fun_legal_build_req (p : prog) (r : request) : bool :=
  match build_public p r with inl m => fun_legal_req p r m | inr _ => true end.
