(* BuildFacts.v — proofs about Build.v / Validate.v used by the property files C01–C04, C12.
   Part 1: soundness of the boolean validators w.r.t. declarative statements, and inversion of the public build. *)
From Coq Require Import List String NArith Arith Bool Lia.
From Spox Require Import Base IR Show Build Sem Plan Named Validate.
Import ListNotations.

(* ---------- generic boolean reflection ---------- *)
Lemma nref_eqb_spec a b : reflect (a = b) (nref_eqb a b).
Proof. destruct a as [x|x], b as [y|y]; simpl; try (constructor; congruence);
  destruct (Nat.eqb_spec x y); constructor; congruence. Qed.
Lemma var_eqb_spec a b : reflect (a = b) (var_eqb a b).
Proof. destruct a as [n o], b as [n' o']; simpl.
  destruct (nref_eqb_spec n n'), (Nat.eqb_spec o o'); simpl; constructor; congruence. Qed.

Section Refl.
  Context {A : Type} (eqb : A -> A -> bool) (eqb_spec : forall a b, reflect (a = b) (eqb a b)).
  Lemma mem_In x l : mem eqb x l = true <-> In x l.
  Proof. unfold mem. rewrite existsb_exists. split.
    - intros [y [Hy E]]. destruct (eqb_spec x y); [subst; auto|discriminate].
    - intros H. exists x. split; auto. destruct (eqb_spec x x); congruence. Qed.
  Lemma mem_nIn x l : mem eqb x l = false <-> ~ In x l.
  Proof. rewrite <- mem_In. destruct (mem eqb x l); split; congruence. Qed.
  Lemma nodupb_NoDup l : nodupb eqb l = true -> NoDup l.
  Proof. induction l as [|x t IH]; simpl; intros H; [constructor|].
    apply andb_prop in H. destruct H as [H1 H2]. constructor; [|auto].
    apply negb_true_iff in H1. now apply mem_nIn in H1. Qed.
  Lemma list_eqb_eq a b : list_eqb eqb a b = true -> a = b.
  Proof. revert b; induction a as [|x a IH]; intros [|y b]; simpl; intros H; try discriminate; auto.
    apply andb_prop in H. destruct H as [H1 H2]. destruct (eqb_spec x y); [|discriminate]. subst. f_equal. auto. Qed.
End Refl.

Lemma find_none_intro {A} (f : A -> bool) l : (forall x, In x l -> f x = false) -> find f l = None.
Proof. induction l as [|a l IH]; simpl; intros H; [reflexivity|]. rewrite (H a) by now left. apply IH. intros x Hx. apply H. now right. Qed.

Lemma NoDup_app_snoc {A} (l : list A) u : NoDup l -> ~ In u l -> NoDup (l ++ [u]).
Proof. induction l as [|x l IHl]; simpl; intros Hn Hu. { repeat constructor; auto. }
  inversion Hn; subst. constructor.
  - intros Hc; apply in_app_or in Hc; destruct Hc as [Hc|[Hc|[]]]; [auto|subst; apply Hu; now left].
  - apply IHl; auto. Qed.
Lemma string_eqb_spec a b : reflect (a = b) (String.eqb a b).
Proof. apply String.eqb_spec. Qed.

(* ---------- longest common prefix = lowest common ancestor of root paths ---------- *)
Definition prefix (q l : list nat) := exists s, l = (q ++ s)%list.
Lemma is_prefix_spec a b : is_prefix a b = true <-> prefix a b.
Proof. revert b; induction a as [|x a IH]; intros b; simpl.
  - split; [intros _; exists b; reflexivity|auto].
  - destruct b as [|y b]; [split; [discriminate|intros [s Hs]; discriminate]|].
    rewrite andb_true_iff, IH. split.
    + intros [E [s Hs]]. apply Nat.eqb_eq in E. subst. exists s. reflexivity.
    + intros [s Hs]. inversion Hs; subst. split; [apply Nat.eqb_refl|exists s; reflexivity]. Qed.
Lemma lcp_l a b : prefix (lcp a b) a.
Proof. revert b; induction a as [|x a IH]; intros [|y b]; simpl; try (eexists; reflexivity).
  destruct (Nat.eqb_spec x y); [|eexists; reflexivity]. destruct (IH b) as [s Hs]. exists s. simpl. now f_equal. Qed.
Lemma lcp_comm a b : lcp a b = lcp b a.
Proof. revert b; induction a as [|x a IH]; intros [|y b]; simpl; auto.
  destruct (Nat.eqb_spec x y), (Nat.eqb_spec y x); subst; try congruence. Qed.
Lemma lcp_r a b : prefix (lcp a b) b. Proof. rewrite lcp_comm. apply lcp_l. Qed.
Lemma lcp_greatest c a b : prefix c a -> prefix c b -> prefix c (lcp a b).
Proof. revert a b; induction c as [|z c IH]; intros a b [s1 H1] [s2 H2]. { eexists; reflexivity. }
  subst. simpl. rewrite Nat.eqb_refl. destruct (IH (c ++ s1)%list (c ++ s2)%list) as [s Hs]; try (eexists; reflexivity).
  exists s. simpl. now f_equal. Qed.
Lemma prefix_trans a b c : prefix a b -> prefix b c -> prefix a c.
Proof. intros [s Hs] [t Ht]. exists (s ++ t)%list. subst. now rewrite app_assoc. Qed.
Lemma fold_lcp_prefix t : forall q, prefix (fold_left lcp t q) q /\ forall x, In x t -> prefix (fold_left lcp t q) x.
Proof. induction t as [|a t IH]; intros q; simpl. { split; [exists []; now rewrite app_nil_r|intros x []]. }
  destruct (IH (lcp q a)) as [H1 H2]. split.
  - eapply prefix_trans; [exact H1|apply lcp_l].
  - intros x [<-|Hx]; auto. eapply prefix_trans; [exact H1|apply lcp_r]. Qed.
Lemma fold_lcp_greatest t : forall q c, prefix c q -> (forall x, In x t -> prefix c x) -> prefix c (fold_left lcp t q).
Proof. induction t as [|a t IH]; intros q c Hq Ht; simpl; [exact Hq|].
  apply IH; [apply lcp_greatest; [exact Hq|apply Ht; now left]|intros x Hx; apply Ht; now right]. Qed.

(* lcp_all ps = Some l : l is an ancestor-or-equal of every path in ps, and the deepest such *)
Theorem lcp_all_spec ps l : lcp_all ps = Some l ->
  (forall q, In q ps -> prefix l q) /\ (forall c, (forall q, In q ps -> prefix c q) -> prefix c l).
Proof. destruct ps as [|q t]; simpl; [discriminate|]. intros H. inversion H; subst. clear H.
  destruct (fold_lcp_prefix t q) as [H1 H2]. split.
  - intros x [<-|Hx]; auto.
  - intros c Hc. apply fold_lcp_greatest; [apply Hc; now left|intros x Hx; apply Hc; now right]. Qed.

(* ---------- inversion of the checked public build ---------- *)
Lemma bind_ok {A B} (m : res A) (f : A -> res B) b : bind m f = inl b -> exists a, m = inl a /\ f a = inl b.
Proof. destruct m as [a|e]; simpl; intros H; [exists a; auto|discriminate]. Qed.

Theorem build_checked_inv p r m : build_checked p r = inl m -> build_public p r = inl m /\ validators p r m = true.
Proof. unfold build_checked. intros H. apply bind_ok in H. destruct H as [m' [H1 H2]].
  destruct (validators p r m') eqn:E; [|discriminate]. inversion H2; subst. auto. Qed.

Lemma to_model_struct b m : to_model b = inl m -> struct_check (mmain m) = true /\ mmain m = b_graph b /\ mimports m = max_opset_policy (b_req b).
Proof. unfold to_model. intros H. apply bind_ok in H. destruct H as [funs [H1 H2]].
  destruct (struct_check (b_graph b)) eqn:E; [|discriminate]. simpl in H2.
  destruct (forallb _ funs); [|discriminate]. inversion H2; subst; simpl. auto. Qed.

(* the public build only ever returns a model that passed the final structural check — an exception otherwise *)
Theorem build_public_checked p r m : build_public p r = inl m -> struct_check (mmain m) = true.
Proof.
  unfold build_public. destruct (all_vars (r_inputs r)) as [inputs|]; [|discriminate].
  destruct (all_vars (r_outputs r)) as [outputs|]; [|discriminate].
  destruct (negb _); [discriminate|]. destruct outputs as [|o os]; [discriminate|].
  intros H. apply bind_ok in H. destruct H as [args [_ H]]. apply bind_ok in H. destruct H as [b [_ H]].
  apply bind_ok in H. destruct H as [m' [Hm H]]. apply to_model_struct in Hm. destruct Hm as [Hs _].
  destruct (mmain m') as [gi body go_] eqn:Eg. destruct (forallb _ gi); [|discriminate]. inversion H; subst. rewrite Eg. exact Hs.
Qed.

(* no additional inputs: every graph input of a returned model is one of the listed inputs (else KeyError) *)
Theorem build_public_inputs_listed p r m inputs : build_public p r = inl m -> all_vars (r_inputs r) = Some inputs ->
  match mmain m with MGraph gi _ _ => forall i, In i gi -> In (fst i) (map fst inputs) end.
Proof.
  unfold build_public. intros H Hi. rewrite Hi in H.
  destruct (all_vars (r_outputs r)) as [outputs|]; [|discriminate].
  destruct (negb _); [discriminate|]. destruct outputs as [|o os]; [discriminate|].
  apply bind_ok in H. destruct H as [args [_ H]]. apply bind_ok in H. destruct H as [b [_ H]].
  apply bind_ok in H. destruct H as [m' [Hm H]].
  destruct (mmain m') as [gi body go_] eqn:Eg. destruct (forallb _ gi) eqn:Ef; [|discriminate]. inversion H; subst. rewrite Eg.
  intros i Hin. rewrite forallb_forall in Ef. specialize (Ef i Hin). now apply (mem_In String.eqb string_eqb_spec) in Ef.
Qed.

(* ... and with drop_unused_inputs the comparison is on the argument Vars themselves, not on their names: every argument the
   outputs were found to use (first build, no requested arguments) is one of the listed Vars, else KeyError *)
Theorem build_public_drop_used_listed p r m inputs outputs :
  build_public p r = inl m -> r_drop r = true ->
  all_vars (r_inputs r) = Some inputs -> all_vars (r_outputs r) = Some outputs ->
  exists un b1, build_main (S (List.length (graphs p))) (with_main p None outputs) un 0 = inl b1 /\
                forall v, In v (b_args b1) -> In v (map snd inputs).
Proof.
  unfold build_public. intros H Hd Hi Ho. rewrite Hi, Ho, Hd in H.
  destruct (negb _); [discriminate|]. destruct outputs as [|o os]; [discriminate|].
  apply bind_ok in H. destruct H as [args [Ha _]]. apply bind_ok in Ha. destruct Ha as [b1 [Hb1 Ha]].
  eexists. exists b1. split; [exact Hb1|].
  destruct (forallb (fun v => mem var_eqb v (map snd inputs)) (b_args b1)) eqn:Ef; [|discriminate].
  intros v Hv. rewrite forallb_forall in Ef. specialize (Ef v Hv). now apply (mem_In var_eqb var_eqb_spec) in Ef.
Qed.

(* public argument checks *)
Theorem build_public_bad_kinds p r : all_vars (r_inputs r) = None \/ all_vars (r_outputs r) = None -> build_public p r = inr EType.
Proof. unfold build_public. intros [H|H].
  - now rewrite H.
  - destruct (all_vars (r_inputs r)); [now rewrite H|reflexivity]. Qed.
Theorem build_public_inputs_not_arguments p r inputs : all_vars (r_inputs r) = Some inputs ->
  (exists kv, In kv inputs /\ is_arg p (vnode (snd kv)) = false) -> build_public p r = inr EType.
Proof. unfold build_public. intros H [kv [Hin Hna]]. rewrite H. destruct (all_vars (r_outputs r)); [|reflexivity].
  assert (E : forallb (fun kv0 => is_arg p (vnode (snd kv0))) inputs = false).
  { apply not_true_iff_false. intros Hc. rewrite forallb_forall in Hc. rewrite (Hc kv Hin) in Hna. discriminate. }
  now rewrite E. Qed.
Theorem build_public_no_outputs p r inputs : all_vars (r_inputs r) = Some inputs -> r_outputs r = [] ->
  forallb (fun kv => is_arg p (vnode (snd kv))) inputs = true -> build_public p r = inr EValue.
Proof. unfold build_public. intros H Ho Hf. rewrite H, Ho. simpl. now rewrite Hf. Qed.

(* ---------- soundness of the validators ---------- *)
Section Valid.
Variables (p : prog) (r : request) (m : model) (inputs outputs : list (string * var)).
Hypothesis Hin : all_vars (r_inputs r) = Some inputs.
Hypothesis Hout : all_vars (r_outputs r) = Some outputs.
Hypothesis Hv : validators p r m = true.
Let p' := final_prog p r inputs outputs.

Lemma validators_split :
  global_unique (mmain m) = true /\ node_names_unique (mmain m) = true /\ imports_unique m = true /\ floor_ok m = true /\
  emitted_once p' (mmain m) = true /\ placed p' (mmain m) = true /\ check_plan p' 0 (mmain m) = true /\
  functions_exact p' m = true /\ function_imports_cover p' m = true /\ function_plans p' m = true /\
  inline_blocks_alpha p' m = true /\ names_ok p' 0 (mmain m) = true /\
  io_exact p' inputs outputs (r_drop r) (depends_on p' 0) (mmain m) = true.
Proof. pose proof Hv as H. unfold validators in H. rewrite Hin, Hout in H. fold p' in H.
  repeat (apply andb_prop in H; destruct H as [H ?]). repeat split; assumption. Qed.

Theorem value_names_globally_unique : NoDup (defs_graph (mmain m)).
Proof. destruct validators_split as (H & _). now apply (nodupb_NoDup String.eqb string_eqb_spec). Qed.
Theorem node_names_unique : NoDup (nonempty (names_graph (mmain m))).
Proof. destruct validators_split as (_ & H & _). now apply (nodupb_NoDup String.eqb string_eqb_spec). Qed.
Theorem one_import_per_domain : NoDup (map fst (mimports m)).
Proof. destruct validators_split as (_ & _ & H & _). now apply (nodupb_NoDup String.eqb string_eqb_spec). Qed.

Theorem emitted_exactly_once :
  NoDup (srcs_graph (mmain m)) /\ forall u, In u (srcs_graph (mmain m)) <-> In u (reachable p' 0).
Proof. destruct validators_split as (_ & _ & _ & _ & H & _). unfold emitted_once in H.
  apply andb_prop in H. destruct H as [H H3]. apply andb_prop in H. destruct H as [H1 H2]. split.
  - now apply (nodupb_NoDup nref_eqb nref_eqb_spec).
  - intros u. rewrite forallb_forall in H2, H3. split; intros Hu.
    + now apply (mem_In nref_eqb nref_eqb_spec), H2.
    + now apply (mem_In nref_eqb nref_eqb_spec), H3. Qed.

(* every emitted operator application sits in the innermost graph that encloses the graphs of all its consumers *)
Theorem placed_innermost u pu : In (NReal u, pu) (paths_graph [] (mmain m)) ->
  let paths := paths_graph [] (mmain m) in
  let cps := flat_map (fun w => match lookup nref_eqb w paths with Some q => [q] | None => [] end)
                      (consumers p' (map fst paths) (NReal u)) in
  cps <> [] /\ (forall q, In q cps -> prefix pu q) /\ (forall c, (forall q, In q cps -> prefix c q) -> prefix c pu).
Proof. intros Hu paths cps. destruct validators_split as (_ & _ & _ & _ & _ & H & _). unfold placed in H.
  rewrite forallb_forall in H. specialize (H _ Hu). cbn beta iota in H. fold paths in H. fold cps in H.
  destruct (lcp_all cps) as [l|] eqn:El; [|discriminate].
  apply (list_eqb_eq Nat.eqb Nat.eqb_spec) in H. subst l. destruct (lcp_all_spec _ _ El) as [H1 H2].
  split; [destruct cps; [discriminate|congruence]|]. split; assumption. Qed.

Theorem io_names_exact :
  match mmain m with MGraph gi _ go_ =>
    map fst gi = map fst (if r_drop r then filter (fun kv => mem var_eqb (snd kv) (depends_on p' 0)) inputs else inputs) /\
    map fst go_ = map fst outputs /\
    map snd go_ = map (fun kv => match vty p' (snd kv) with Some t => tshow t | None => "?"%string end) outputs /\
    map snd gi = map (fun kv => match vty p' (snd kv) with Some t => tshow t | None => "?"%string end)
                     (if r_drop r then filter (fun kv => mem var_eqb (snd kv) (depends_on p' 0)) inputs else inputs)
  end.
Proof. destruct validators_split as (_ & _ & _ & _ & _ & _ & _ & _ & _ & _ & _ & _ & H). unfold io_exact in H. destruct (mmain m) as [gi b go_].
  repeat (apply andb_prop in H; destruct H as [H ?]).
  repeat split; now apply (list_eqb_eq String.eqb string_eqb_spec). Qed.
Theorem names_checked : names_ok p' 0 (mmain m) = true.
Proof. now destruct validators_split as (_ & _ & _ & _ & _ & _ & _ & _ & _ & _ & _ & H & _). Qed.
Theorem plan_checked : check_plan p' 0 (mmain m) = true.
Proof. now destruct validators_split as (_ & _ & _ & _ & _ & _ & H & _). Qed.

Lemma key_eqb_spec a b : reflect (a = b) (key_eqb a b).
Proof. destruct a as [a1 a2], b as [b1 b2]. unfold key_eqb. simpl.
  destruct (String.eqb_spec a1 b1), (String.eqb_spec a2 b2); simpl; constructor; congruence. Qed.

(* exactly one definition per used (domain, name) *)
Theorem functions_one_per_key :
  NoDup (fkeys m) /\ (forall k, In k (used_fkeys p' m) <-> In k (fkeys m)).
Proof. destruct validators_split as (_ & _ & _ & _ & _ & _ & _ & H & _). unfold functions_exact in H.
  apply andb_prop in H. destruct H as [H H3]. apply andb_prop in H. destruct H as [H1 H2]. split.
  - now apply (nodupb_NoDup key_eqb key_eqb_spec).
  - intros k. rewrite forallb_forall in H2, H3. split; intros Hk.
    + now apply (mem_In key_eqb key_eqb_spec), H2.
    + now apply (mem_In key_eqb key_eqb_spec), H3. Qed.

Theorem function_imports_cover_body f u dv :
  In f (mfunctions m) -> In u (flat_map srcs_node (f_body f)) -> In dv (node_req p' u) ->
  exists iv, In iv (f_imports f) /\ fst iv = fold_domain (fst dv) /\ snd dv <= snd iv.
Proof. intros Hf Hu Hd. destruct validators_split as (_ & _ & _ & _ & _ & _ & _ & _ & H & _). unfold function_imports_cover in H.
  rewrite forallb_forall in H. specialize (H f Hf). rewrite forallb_forall in H. specialize (H u Hu).
  rewrite forallb_forall in H. specialize (H dv Hd). unfold covered in H. apply existsb_exists in H.
  destruct H as [iv [Hiv Hc]]. apply andb_prop in Hc. destruct Hc as [H1 H2]. exists iv. split; [assumption|]. split.
  - now apply String.eqb_eq in H1.
  - now apply Nat.leb_le in H2. Qed.

Theorem function_plan_checked f : In f (mfunctions m) -> check_plan p' (f_bodyid f) (MGraph [] (f_body f) []) = true.
Proof. intros Hf. destruct validators_split as (_ & _ & _ & _ & _ & _ & _ & _ & _ & H & _). unfold function_plans in H.
  rewrite forallb_forall in H. now apply H. Qed.
End Valid.
