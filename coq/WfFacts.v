(* WfFacts.v — the specification-level plan of a LEGAL program is a well-formed linearisation, BY PROOF (not by evaluation):
   operands defined earlier in the same or an enclosing graph, outputs fresh, subplans matching the subgraph attributes, results defined,
   body arguments local.  The non-argument part follows from the algorithm-level facts (PlacementFacts, DefUseFacts, TreeFacts,
   CoverageFacts); the argument part is the program's LEGALITY, stated on the program and the scope resolution only:
   arguments of different graphs are disjoint, and an argument used by a node is an argument of the graph the node is placed in or of
   an enclosing one (no leak). *)
From Coq Require Import List String NArith Arith Bool Lia.
From Spox Require Import Base IR Show Build Sem Plan Named Validate DfsFacts ReachFacts DiscoverFacts ScopeFacts EmitFacts CoverageFacts LcaFacts
                         PlacementFacts DefUseFacts TreeFacts PlanFacts BuildFacts SemFacts.
Import ListNotations.
Open Scope list_scope.

Lemma seqn_length : forall n k, List.length (seqn k n) = n.
Proof. induction n as [|n IH]; intros k; cbn; [reflexivity|]. now rewrite IH. Qed.

Lemma before_in_split (l : list nref) : NoDup l -> forall w u pre t, before_in l w u -> l = pre ++ u :: t -> In w pre.
Proof.
  intros Hnd w u pre t [a [b [c E]]] E2.
  assert (E3 : l = (a ++ w :: b) ++ u :: c). { rewrite E, <- app_assoc. reflexivity. }
  assert (a ++ w :: b = pre). { eapply NoDup_split_unique; [rewrite <- E3; exact Hnd|]. rewrite <- E3. exact E2. }
  subst pre. apply in_or_app. right. now left.
Qed.

Section Wf.
Variable p : prog.
Variable rank : nref -> nat.
Hypothesis Hrank : forall u v, In v (full_adj p u) -> rank v < rank u.
Hypothesis Hfuel : forall u, rank u < fuel_of p.
Variable main : nat.
Variable d : dstate.
Hypothesis Hd : discover (fuel_of p) p dstate0 main = inl d.

Notation parf := (parf p d).
Notation Anc := (Anc p d).
Let topo := topo_of p main.
Let own_of := own_of_def p d main.
Let scf := scopes_of p d.
Let gt := rev (d_post d).

(* ---- premises on the program (all decidable; see legal_b below) ---- *)
Hypothesis Hkinds : wf_kinds p.
Hypothesis Hreal : ins_real p.
Hypothesis Hkeys : forall u k h, In (k, h) (subs_of p u) -> sub_id p u k = h.
Hypothesis Ha1 : forall g, NoDup (gargsP p g) /\ forall a, In a (gargsP p g) -> is_arg p (vnode a) = true.
Hypothesis Ha2 : forall g g' a, g <> g' -> In a (gargsP p g) -> ~ In a (gargsP p g').
Hypothesis Ha3 : forall s u x, In u (own_of s) -> is_arg p u = false -> In (Some x) (insP p main u) -> is_arg p (vnode x) = true ->
                   exists g', Anc g' s /\ In x (gargsP p g').
Hypothesis Ha4 : forall u x, In u topo -> In (Some x) (insP p main u) -> is_arg p (vnode x) = false -> vidx x < noutsP p (vnode x).

Definition nonargs (g : nat) : list nref := filter (fun u => negb (is_arg p u)) (own_of g).
Definition outv (u : nref) : list var := outvars (noutsP p) u.

Lemma topoN : NoDup topo.
Proof. unfold topo, topo_of. refine (proj1 (postorder_spec (full_adj p) rank Hrank (2 * fuel_of p) (NIntro main) _)). specialize (Hfuel (NIntro main)). lia. Qed.
Lemma nonargs_NoDup g : NoDup (nonargs g).
Proof. unfold nonargs, own_of, own_of_def. apply NoDup_filter. apply NoDup_filter. apply topoN. Qed.
Lemma nonargs_own g u : In u (nonargs g) -> In u (own_of g) /\ is_arg p u = false.
Proof. unfold nonargs. intros H. apply filter_In in H. destruct H as [H1 H2]. split; [exact H1|]. now apply negb_true_iff in H2. Qed.
Lemma own_topo g u : In u (own_of g) -> In u topo /\ lookup nref_eqb u scf = Some g.
Proof. unfold own_of, own_of_def. intros H. apply filter_In in H. destruct H as [H1 H2]. split; [exact H1|]. fold scf in H2.
  destruct (lookup nref_eqb u scf) as [s|]; [|discriminate]. apply Nat.eqb_eq in H2. now subst. Qed.
Lemma own_unique g g' u : In u (own_of g) -> In u (own_of g') -> g = g'.
Proof. intros H1 H2. apply own_topo in H1. apply own_topo in H2. destruct H1 as [_ H1]. destruct H2 as [_ H2]. congruence. Qed.
Lemma inR_topo u : In u topo -> inR p main u = true.
Proof. intros H. unfold inR, topoP. apply (BuildFacts.mem_In nref_eqb nref_eqb_spec). exact H. Qed.

Lemma ins_deps u x : In u topo -> In (Some x) (insP p main u) -> In (vnode x) (deps p u).
Proof.
  intros Hu Hx. unfold insP in Hx. rewrite (inR_topo u Hu) in Hx. unfold deps. destruct u as [n|g].
  - apply in_flat_map. exists (Some x). split; [exact Hx|now left].
  - apply in_map_iff in Hx. destruct Hx as [kv [E Hk]]. inversion E; subst. apply in_map_iff. exists kv. auto.
Qed.

(* the carrier of a graph is unique *)
Lemma carrier_unique g g' o o' k k' h : In o (own_of g) -> In (k, h) (subs_of p o) -> In o' (own_of g') -> In (k', h) (subs_of p o') -> o = o' /\ g = g'.
Proof.
  intros Ho Hk Ho' Hk'. destruct (discover_facts p rank Hrank main d Hd) as [_ [_ [Hown _]]].
  assert (L : forall g0 o0 k0, In o0 (own_of g0) -> In (k0, h) (subs_of p o0) -> lookup Nat.eqb h (d_own d) = Some o0).
  { intros g0 o0 k0 H1 H2. apply own_topo in H1. destruct H1 as [Ht _].
    assert (Hr : reach (full_adj p) (NIntro main) o0) by (eapply postorder_sound; exact Ht).
    destruct (discovered_cover p rank Hrank main Hfuel d Hd o0 Hr) as [D [HD HoD]]. exact (proj1 (Hown D HD o0 k0 h HoD H2)). }
  pose proof (L g o k Ho Hk) as E1. pose proof (L g' o' k' Ho' Hk') as E2. rewrite E1 in E2. inversion E2; subst o'. split; [reflexivity|].
  eapply own_unique; eauto.
Qed.
Lemma carried_not_main o g k : In o (own_of g) -> ~ In (k, main) (subs_of p o).
Proof.
  intros Ho Hk. destruct (discover_facts p rank Hrank main d Hd) as [_ [_ [Hown _]]].
  apply own_topo in Ho. destruct Ho as [Ht _]. assert (Hr : reach (full_adj p) (NIntro main) o) by (eapply postorder_sound; exact Ht).
  destruct (discovered_cover p rank Hrank main Hfuel d Hd o Hr) as [D [HD HoD]].
  pose proof (proj1 (Hown D HD o k main HoD Hk)) as E. rewrite (main_no_owner p rank Hrank main d Hd) in E. discriminate E.
Qed.
Lemma carried_in_post o g k h : In o (own_of g) -> In (k, h) (subs_of p o) -> In h (d_post d).
Proof.
  intros Ho Hk. destruct (discover_facts p rank Hrank main d Hd) as [_ [_ [Hown _]]].
  apply own_topo in Ho. destruct Ho as [Ht _]. assert (Hr : reach (full_adj p) (NIntro main) o) by (eapply postorder_sound; exact Ht).
  destruct (discovered_cover p rank Hrank main Hfuel d Hd o Hr) as [D [HD HoD]].
  destruct (Hown D HD o k h HoD Hk) as [_ B]. eapply before_In_l. exact B.
Qed.

(* ---- frames: the chain of (graph, nodes already executed) from the innermost graph out to the main graph ---- *)
Definition frame := (nat * list nref)%type.
Fixpoint Dof (ctx : list frame) : list var :=
  match ctx with [] => [] | (g, pre) :: rest => flat_map outv (rev pre) ++ gargsP p g ++ Dof rest end.
Fixpoint Aof (ctx : list frame) : list var :=
  match ctx with [] => [] | (g, _) :: rest => gargsP p g ++ Aof rest end.

Inductive CI : list frame -> Prop :=
| CI_main pre suf : nonargs main = pre ++ suf -> CI [(main, pre)]
| CI_sub h pre_h suf_h g pre_g o suf_g k rest :
    CI ((g, pre_g) :: rest) -> nonargs g = pre_g ++ o :: suf_g -> In (k, h) (subs_of p o) -> nonargs h = pre_h ++ suf_h ->
    CI ((h, pre_h) :: (g, pre_g) :: rest).

Lemma CI_head h pre rest pre' suf' : CI ((h, pre) :: rest) -> nonargs h = pre' ++ suf' -> CI ((h, pre') :: rest).
Proof. intros H E. inversion H; subst; [eapply CI_main; eauto|eapply CI_sub; eauto]. Qed.

Lemma Dof_in ctx x : In x (Dof ctx) <->
  (exists g pre, In (g, pre) ctx /\ In x (gargsP p g)) \/ (exists g pre w, In (g, pre) ctx /\ In w pre /\ In x (outv w)).
Proof.
  induction ctx as [|[g pre] rest IH]; cbn [Dof].
  - split; [intros []|intros [[g [pre [[] _]]]|[g [pre [w [[] _]]]]]].
  - rewrite !in_app_iff, IH, in_flat_map. split.
    + intros [[w [Hw Hx]]|[Hx|[[g' [pre' [Hf Hx]]]|[g' [pre' [w [Hf [Hw Hx]]]]]]]].
      * right. exists g, pre, w. split; [now left|]. split; [now apply in_rev|exact Hx].
      * left. exists g, pre. split; [now left|exact Hx].
      * left. exists g', pre'. split; [now right|exact Hx].
      * right. exists g', pre', w. split; [now right|auto].
    + intros [[g' [pre' [[E|Hf] Hx]]]|[g' [pre' [w [[E|Hf] [Hw Hx]]]]]].
      * inversion E; subst. right. now left.
      * right. right. left. exists g', pre'. auto.
      * inversion E; subst. left. exists w. split; [now apply -> in_rev|exact Hx].
      * right. right. right. exists g', pre', w. auto.
Qed.
Lemma Aof_in ctx x : In x (Aof ctx) <-> exists g pre, In (g, pre) ctx /\ In x (gargsP p g).
Proof.
  induction ctx as [|[g pre] rest IH]; cbn [Aof]; [split; [intros []|intros [g [pre [[] _]]]]|].
  rewrite in_app_iff, IH. split.
  - intros [Hx|[g' [pre' [Hf Hx]]]]; [exists g, pre; split; [now left|exact Hx]|exists g', pre'; split; [now right|exact Hx]].
  - intros [g' [pre' [[E|Hf] Hx]]]; [inversion E; subst; now left|right; exists g', pre'; auto].
Qed.

(* every frame's prefix consists of non-argument nodes placed in the frame's graph *)
Lemma CI_pre ctx : CI ctx -> forall g pre w, In (g, pre) ctx -> In w pre -> In w (own_of g) /\ is_arg p w = false.
Proof.
  intros H. induction H as [pre suf E|h pre_h suf_h g pre_g o suf_g k rest _ IH Eg Hk Eh]; intros g0 pre0 w Hf Hw.
  - destruct Hf as [Ef|[]]. inversion Ef; subst. apply nonargs_own. rewrite E. apply in_or_app. now left.
  - destruct Hf as [Ef|Hf]; [|eapply IH; eauto]. inversion Ef; subst. apply nonargs_own. rewrite Eh. apply in_or_app. now left.
Qed.

(* the graphs of the frames are exactly the graphs that enclose the innermost one *)
Lemma CI_Anc ctx : CI ctx -> forall h pre rest, ctx = (h, pre) :: rest -> forall g pre', In (g, pre') ctx -> Anc g h.
Proof.
  intros H. induction H as [pm sm E|h0 pre_h suf_h g0 pre_g o suf_g k rest0 _ IH Eg Hk Eh]; intros h pre rest Ectx g pre' Hf.
  - inversion Ectx; subst. destruct Hf as [Ef|[]]. inversion Ef; subst. apply Anc_refl.
  - inversion Ectx; subst. destruct Hf as [Ef|Hf]; [inversion Ef; subst; apply Anc_refl|].
    eapply Anc_trans; [eapply IH; [reflexivity|exact Hf]|]. exists 1. cbn [up].
    eapply parf_of_carried; eauto. apply nonargs_own. rewrite Eg. apply in_or_app. right. now left.
Qed.
Lemma CI_up ctx : CI ctx -> forall h pre rest, ctx = (h, pre) :: rest -> forall k, exists pre', In (up parf k h, pre') ctx.
Proof.
  intros H. induction H as [pm sm E|h0 pre_h suf_h g0 pre_g o suf_g k0 rest0 _ IH Eg Hk Eh]; intros h pre rest Ectx k.
  - inversion Ectx; subst. exists pre. rewrite (up_main p rank Hrank main d Hd). now left.
  - inversion Ectx; subst. destruct k as [|k]; [exists pre; now left|]. cbn [up].
    assert (E : parf h = g0). { eapply parf_of_carried; eauto. apply nonargs_own. rewrite Eg. apply in_or_app. right. now left. }
    rewrite E. destruct (IH g0 pre_g rest0 eq_refl k) as [pre' Hin]. exists pre'. now right.
Qed.
Lemma CI_in_post ctx : CI ctx -> forall g pre, In (g, pre) ctx -> In g (d_post d).
Proof.
  intros H. induction H as [pre suf E|h pre_h suf_h g0 pre_g o suf_g k rest _ IH Eg Hk Eh]; intros g pre0 Hf.
  - destruct Hf as [Ef|[]]. inversion Ef; subst. exact (proj1 (proj2 (discover_facts p rank Hrank main d Hd))).
  - destruct Hf as [Ef|Hf]; [|eapply IH; eauto]. inversion Ef; subst. eapply (carried_in_post o g0); eauto.
    apply nonargs_own. rewrite Eg. apply in_or_app. right. now left.
Qed.
(* a graph carried by a node of the innermost frame is not a frame graph (the chain never revisits a graph) *)
Lemma CI_fresh ctx : CI ctx -> forall h pre rest o k sub, ctx = (h, pre) :: rest -> In o (nonargs h) -> In (k, sub) (subs_of p o) ->
  forall g pre', In (g, pre') ctx -> g <> sub.
Proof.
  intros H h pre rest o k sub Ectx Ho Hk g pre' Hf Eq. subst g.
  pose proof (CI_Anc ctx H h pre rest Ectx sub pre' Hf) as A1.
  assert (Hpar : parf sub = h). { eapply parf_of_carried; eauto. now apply nonargs_own. }
  assert (A2 : Anc h sub) by (exists 1; cbn [up]; exact Hpar).
  assert (Hh : In h gt). { apply -> in_rev. eapply CI_in_post; [exact H|]. rewrite Ectx. now left. }
  assert (E : sub = h) by (eapply (Anc_antisym p rank Hrank main d Hd); eauto). subst sub.
  (* h carries itself: its parent is strictly earlier, contradiction *)
  assert (Hne : h <> main). { intros ->. eapply carried_not_main; [apply nonargs_own; exact Ho|exact Hk]. }
  apply in_split in Hh. destruct Hh as [l1 [l2 Egt]]. pose proof (parf_of_nonroot p rank Hrank main d Hd l1 h l2 Egt Hne) as Hin.
  rewrite Hpar in Hin. eapply NoDup_app_disj; [rewrite <- Egt; apply (gtN p rank Hrank main d Hd)|exact Hin|now left].
Qed.
(* frame graphs are pairwise distinct: a frame with the head's graph IS the head *)
Lemma CI_distinct ctx : CI ctx -> NoDup (map fst ctx).
Proof.
  intros H. induction H as [pre suf E|h pre_h suf_h g pre_g o suf_g k rest H IH Eg Hk Eh]; cbn [map fst]; [constructor; [intros []|constructor]|].
  constructor; [|exact IH]. intros Hin. change (g :: map fst rest) with (map fst ((g, pre_g) :: rest)) in Hin. apply in_map_iff in Hin. destruct Hin as [[g' pre'] [E Hf]]. cbn in E. subst g'.
  eapply (CI_fresh _ H g pre_g rest o k h eq_refl); [rewrite Eg; apply in_or_app; right; now left|exact Hk|exact Hf|reflexivity].
Qed.
Lemma CI_head_unique ctx h pre rest pre' : CI ctx -> ctx = (h, pre) :: rest -> In (h, pre') ctx -> pre' = pre.
Proof.
  intros H Ectx Hf. pose proof (CI_distinct ctx H) as Hnd. rewrite Ectx in Hnd, Hf. cbn [map fst] in Hnd. inversion Hnd; subst.
  destruct Hf as [E|Hf]; [now inversion E|]. exfalso. apply H2. apply in_map_iff. exists (h, pre'). auto.
Qed.
(* a non-main frame graph sits right below the frame of its parent, whose prefix ends just before the carrier *)
Lemma CI_split ctx : CI ctx -> forall h', (exists pre, In (h', pre) ctx) -> h' <> main ->
  exists front pre_h g pre_g rest o k suf, ctx = front ++ (h', pre_h) :: (g, pre_g) :: rest /\ nonargs g = pre_g ++ o :: suf /\ In (k, h') (subs_of p o).
Proof.
  intros H. induction H as [pre suf E|h pre_h suf_h g pre_g o suf_g k rest H IH Eg Hk Eh]; intros h' [pre0 Hf] Hne.
  - destruct Hf as [Ef|[]]. inversion Ef; subst. contradiction.
  - destruct Hf as [Ef|Hf].
    + inversion Ef; subst. exists [], pre0, g, pre_g, rest, o, k, suf_g. auto.
    + destruct (IH h' (ex_intro _ pre0 Hf) Hne) as [front [ph [g1 [pg [r1 [o1 [k1 [s1 [E1 [E2 E3]]]]]]]]]].
      exists ((h, pre_h) :: front), ph, g1, pg, r1, o1, k1, s1. split; [cbn; now rewrite E1|auto].
Qed.

(* ---- shape of the specification-level plan ---- *)
Notation splan := (spec_plan p own_of).
Lemma pgid_spec fuel gid g : pgid (splan fuel gid g) = gid.
Proof. destruct fuel; reflexivity. Qed.
Lemma body_entries f g : flat_map (node_entry p (splan f)) (own_of g) = map (fun u => (u, node_plans p (splan f) u)) (nonargs g).
Proof. unfold nonargs. induction (own_of g) as [|u t IH]; [reflexivity|]. cbn [flat_map filter]. unfold node_entry at 1.
  destruct (is_arg p u); cbn [negb app map]; now rewrite IH. Qed.

Lemma plans_ids f u : In u topo -> map pgid (node_plans p (splan f) u) = subsP p main u.
Proof.
  intros Hu. unfold subsP. rewrite (inR_topo u Hu). unfold node_plans, subs_of. destruct u as [n|g]; [|reflexivity].
  assert (G : forall l, (forall ka g, In ka l -> snd ka = AGraph g -> sub_id p (NReal n) (fst ka) = g) ->
             map pgid (flat_map (attr_plans p (splan f) (NReal n)) l) =
             map snd (flat_map (fun ka : String.string * attrv => match snd ka with AGraph g => [(fst ka, g)] | AVal _ => [] end) l)).
  { induction l as [|ka t IH]; intros Hk; [reflexivity|]. cbn [flat_map]. rewrite !map_app. f_equal.
    - unfold attr_plans. destruct (snd ka) as [sub|x] eqn:Es; [|reflexivity]. cbn [map snd]. rewrite pgid_spec. f_equal.
      apply (Hk ka sub); [now left|exact Es].
    - apply IH. intros ka' g Hin. apply Hk. now right. }
  assert (HA : map pgid (flat_map (attr_plans p (splan f) (NReal n)) (attrs (getn p n))) = map snd (subs (getn p n))).
  { unfold subs. apply G. intros ka g Hin Es. apply (Hkeys (NReal n)). cbn [subs_of]. unfold subs. apply in_flat_map. exists ka. split; [exact Hin|].
    rewrite Es. now left. }
  assert (HN : match kind (getn p n) with KOp | KFunc _ _ _ _ => True | _ => subs (getn p n) = [] end).
  { destruct (subs (getn p n)) as [|kh rest0] eqn:Esub; [destruct (kind (getn p n)); auto|].
    pose proof (Hkinds n (fst kh) (snd kh)) as Hk. rewrite Esub in Hk. specialize (Hk (or_introl (surjective_pairing kh))).
    destruct (kind (getn p n)); try destruct Hk; exact I. }
  destruct (kind (getn p n)); try exact HA; rewrite HN; reflexivity.
Qed.

Lemma sub_in_plans f u k sub : In u topo -> is_arg p u = false -> In (k, sub) (subs_of p u) -> In (splan f sub sub) (node_plans p (splan f) u).
Proof.
  intros Hu Ha Hk. destruct u as [n|g]; [|destruct Hk]. cbn [subs_of] in Hk. pose proof (Hkinds n k sub Hk) as Hkd.
  unfold node_plans. assert (Hin : In (splan f sub sub) (flat_map (attr_plans p (splan f) (NReal n)) (attrs (getn p n)))).
  { unfold subs in Hk. apply in_flat_map in Hk. destruct Hk as [ka [Hka Hk]]. apply in_flat_map. exists ka. split; [exact Hka|].
    unfold attr_plans. destruct (snd ka) as [g|r] eqn:Es; [|destruct Hk]. destruct Hk as [E|[]].
    assert (Eg : g = sub) by (inversion E; reflexivity). subst g. left.
    rewrite (Hkeys (NReal n) (fst ka) sub); [reflexivity|]. cbn [subs_of]. unfold subs. apply in_flat_map. exists ka. split; [exact Hka|]. rewrite Es. now left. }
  destruct (kind (getn p n)); try destruct Hkd; exact Hin.
Qed.
Lemma plans_are_subs f u s : In s (node_plans p (splan f) u) -> exists k sub, In (k, sub) (subs_of p u) /\ s = splan f sub sub.
Proof.
  intros H. destruct u as [n|g]; [|destruct H]. unfold node_plans in H.
  assert (G : In s (flat_map (attr_plans p (splan f) (NReal n)) (attrs (getn p n))) -> exists k sub, In (k, sub) (subs (getn p n)) /\ s = splan f sub sub).
  { intros Hin. apply in_flat_map in Hin. destruct Hin as [ka [Hka Hin]]. unfold attr_plans in Hin. destruct (snd ka) as [g|r] eqn:Es; [|destruct Hin].
    destruct Hin as [E|[]]. exists (fst ka), g. assert (Hsub : In (fst ka, g) (subs (getn p n))).
    { unfold subs. apply in_flat_map. exists ka. split; [exact Hka|]. rewrite Es. now left. }
    split; [exact Hsub|]. rewrite <- E. rewrite (Hkeys (NReal n) (fst ka) g Hsub). reflexivity. }
  cbn [subs_of]. destruct (kind (getn p n)); try destruct H; now apply G.
Qed.

(* ---- the four kinds of obligations of [wf] ---- *)
Notation WF := (wf (is_argP p) (insP p main) (subsP p main) (gargsP p) (gresP p) (noutsP p)).
Notation WFB := (wf_body (is_argP p) (insP p main) (subsP p main) (gresP p) (noutsP p)).

Lemma Dof_snoc h pre u rest : Dof ((h, pre ++ [u]) :: rest) = outv u ++ Dof ((h, pre) :: rest).
Proof. cbn [Dof]. rewrite rev_app_distr. cbn [rev app flat_map]. now rewrite <- app_assoc. Qed.

Lemma outv_in w x : vnode x = w -> vidx x < noutsP p w -> In x (outv w).
Proof. intros E H. destruct x as [n i]. cbn in E, H. subst n. unfold outv, outvars. apply in_map. apply in_seq. lia. Qed.
Lemma outv_node w x : In x (outv w) -> vnode x = w.
Proof. unfold outv, outvars. intros H. apply in_map_iff in H. destruct H as [i [<- _]]. reflexivity. Qed.

Lemma CI_tail h pre ctx : CI ((h, pre) :: ctx) -> ctx = [] \/ CI ctx.
Proof. intros H. inversion H; subst; [now left|now right]. Qed.

Lemma before_nonargs g w u : before_in (own_of g) w u -> is_arg p w = false -> is_arg p u = false -> before_in (nonargs g) w u.
Proof. intros H Hw Hu. unfold nonargs. apply before_in_filter; [exact H| |]; apply negb_true_iff; assumption. Qed.

Lemma input_visible ctx h pre t u rest : ctx = (h, pre) :: rest -> CI ctx -> nonargs h = pre ++ u :: t ->
  forall x, In (Some x) (insP p main u) -> In x (Dof ctx).
Proof.
  intros Ectx Hci Eh x Hx.
  assert (Hun : In u (nonargs h)) by (rewrite Eh; apply in_or_app; right; now left).
  destruct (nonargs_own h u Hun) as [Hu Hua]. destruct (own_topo h u Hu) as [Hut _].
  apply Dof_in. destruct (is_arg p (vnode x)) eqn:Ea.
  - left. destruct (Ha3 h u x Hu Hua Hx Ea) as [g' [[k Hk] Hg']]. destruct (CI_up ctx Hci h pre rest Ectx k) as [pre' Hin]. rewrite Hk in Hin.
    exists g', pre'. auto.
  - right. pose proof (ins_deps u x Hut Hx) as Hw.
    destruct (operands_are_defined_before_use_in_an_enclosing_graph p rank Hrank Hfuel main d Hd h u (vnode x) Hu Hw Ea)
      as [sw [Hw_own [Hanc [[Esw Hb]|[h' [o [kk [Hh' [Hkk [Ho Hb]]]]]]]]]].
    + subst sw. exists h, pre, (vnode x). split; [rewrite Ectx; now left|]. split; [|apply outv_in; [reflexivity|now apply (Ha4 u)]].
      eapply before_in_split; [apply (nonargs_NoDup h)|apply before_nonargs; eauto|exact Eh].
    + assert (Hne : h' <> main). { intros ->. eapply carried_not_main; eauto. }
      destruct Hh' as [k Hk]. destruct (CI_up ctx Hci h pre rest Ectx k) as [pre' Hin]. rewrite Hk in Hin.
      destruct (CI_split ctx Hci h' (ex_intro _ pre' Hin) Hne) as [front [ph [g' [pg [r1 [o1 [k1 [s1 [E1 [E2 E3]]]]]]]]]].
      assert (Ho1 : In o1 (nonargs g')) by (rewrite E2; apply in_or_app; right; now left).
      destruct (nonargs_own g' o1 Ho1) as [Ho1' Ho1a].
      destruct (carrier_unique sw g' o o1 kk k1 h' Ho Hkk Ho1' E3) as [Eo Eg]. subst o1 g'.
      exists sw, pg, (vnode x). split; [rewrite E1; apply in_or_app; right; right; now left|]. split; [|apply outv_in; [reflexivity|now apply (Ha4 u)]].
      eapply before_in_split; [apply (nonargs_NoDup sw)|apply before_nonargs; eauto|exact E2].
Qed.

Lemma output_fresh ctx h pre t u rest : ctx = (h, pre) :: rest -> CI ctx -> nonargs h = pre ++ u :: t -> forall o, ~ In (V u o) (Dof ctx).
Proof.
  intros Ectx Hci Eh o Hin.
  assert (Hun : In u (nonargs h)) by (rewrite Eh; apply in_or_app; right; now left).
  destruct (nonargs_own h u Hun) as [Hu Hua].
  apply Dof_in in Hin. destruct Hin as [[g' [pre' [Hf Hx]]]|[g' [pre' [w [Hf [Hw Hx]]]]]].
  - pose proof (proj2 (Ha1 g') _ Hx) as E. cbn [vnode] in E. congruence.
  - apply outv_node in Hx. cbn [vnode] in Hx. subst w. destruct (CI_pre ctx Hci g' pre' u Hf Hw) as [Hu' _].
    assert (g' = h) by (eapply own_unique; eauto). subst g'.
    assert (pre' = pre) by (eapply CI_head_unique; eauto). subst pre'.
    pose proof (nonargs_NoDup h) as Hnd. rewrite Eh in Hnd. apply NoDup_remove_2 in Hnd. apply Hnd. apply in_or_app. now left.
Qed.

Lemma results_defined h rest : CI ((h, nonargs h) :: rest) -> forall r, In r (gresP p h) -> In r (Dof ((h, nonargs h) :: rest)).
Proof.
  intros Hci r Hr. apply Dof_in. right. exists h, (nonargs h), (NIntro h). split; [now left|].
  assert (Hp : In h (d_post d)) by (eapply CI_in_post; [exact Hci|now left]).
  split.
  - unfold nonargs. apply filter_In. split; [|reflexivity]. unfold own_of, own_of_def. apply filter_In. split.
    + apply (in_topo p rank Hrank Hfuel main). exact (proj2 (proj2 (proj2 (proj2 (discover_facts p rank Hrank main d Hd)))) h Hp).
    + rewrite (result_node_placed_in_its_graph p rank Hrank Hfuel main d Hd Hreal h Hp). apply Nat.eqb_refl.
  - unfold gresP in Hr. apply in_map_iff in Hr. destruct Hr as [i [<- Hi]]. apply in_seq in Hi. apply outv_in; [reflexivity|].
    cbn [vidx vnode]. unfold noutsP, node_outs. rewrite map_length, seqn_length. lia.
Qed.

Lemma args_ok h ctx : CI ((h, []) :: ctx) ->
  NoDup (gargsP p h) /\ forall a, In a (gargsP p h) -> is_argv (is_argP p) a = true /\ ~ In a (Aof ctx) /\ ~ In a (Dof ctx).
Proof.
  intros Hci. split; [apply Ha1|]. intros a Ha. pose proof (proj2 (Ha1 h) a Ha) as Harg.
  pose proof (CI_distinct _ Hci) as Hnd. cbn [map fst] in Hnd. inversion Hnd as [|x l Hnot _]; subst.
  assert (Hother : forall g' pre', In (g', pre') ctx -> ~ In a (gargsP p g')).
  { intros g' pre' Hf. apply (Ha2 h g'); [|exact Ha]. intros ->. apply Hnot. apply in_map_iff. exists (g', pre'). auto. }
  split; [destruct a; exact Harg|]. split.
  - intros Hin. apply Aof_in in Hin. destruct Hin as [g' [pre' [Hf Hx]]]. exact (Hother g' pre' Hf Hx).
  - intros Hin. apply Dof_in in Hin. destruct Hin as [[g' [pre' [Hf Hx]]]|[g' [pre' [w [Hf [Hw Hx]]]]]]; [exact (Hother g' pre' Hf Hx)|].
    destruct (CI_tail h [] ctx Hci) as [->|Hc]; [destruct Hf|]. destruct (CI_pre ctx Hc g' pre' w Hf Hw) as [_ Hwa].
    apply outv_node in Hx. rewrite Hx in Harg. congruence.
Qed.

Lemma fold_all {A} (Q : A -> Prop) : forall l, (forall s, In s l -> Q s) -> fold_right (fun s acc => Q s /\ acc) True l.
Proof. induction l as [|a t IH]; intros H; cbn; [exact I|]. split; [apply H; now left|apply IH; intros s Hs; apply H; now right]. Qed.

(* ---- the specification-level plan is well formed ---- *)
Theorem wf_spec : forall fuel h ctx, CI ((h, []) :: ctx) -> spec_ok p own_of fuel h -> WF (splan fuel h h) (Aof ctx) (Dof ctx).
Proof.
  induction fuel as [|f IH]; intros h ctx Hci Hok; [destruct Hok|].
  cbn [spec_plan wf]. rewrite body_entries. destruct (args_ok h ctx Hci) as [Hnd Hargs]. split; [exact Hnd|]. split; [exact Hargs|].
  assert (B : forall suf pre, nonargs h = pre ++ suf -> CI ((h, pre) :: ctx) ->
            WFB (fun s => WF s (gargsP p h ++ Aof ctx)) h (Dof ((h, pre) :: ctx)) (map (fun u => (u, node_plans p (splan f) u)) suf)).
  { induction suf as [|u t IHs]; intros pre E Hc; cbn [map wf_body fst snd].
    - rewrite app_nil_r in E. subst pre. now apply results_defined.
    - assert (Hun : In u (nonargs h)) by (rewrite E; apply in_or_app; right; now left).
      destruct (nonargs_own h u Hun) as [Hu Hua]. destruct (own_topo h u Hu) as [Hut _].
      split; [exact Hua|]. split; [eapply input_visible; eauto|]. split; [now apply plans_ids|]. split; [eapply output_fresh; eauto|]. split.
      + apply fold_all. intros s Hs. destruct (plans_are_subs f u s Hs) as [k [sub [Hk ->]]].
        change (gargsP p h ++ Aof ctx) with (Aof ((h, pre) :: ctx)).
        apply IH.
        * eapply (CI_sub sub [] (nonargs sub) h pre u t k ctx); [exact Hc|exact E|exact Hk|reflexivity].
        * cbn [spec_ok] in Hok. apply (Hok u Hu Hua). exact (proj2 (carrier_kind p Hkinds u k sub Hk)).
      + rewrite <- Dof_snoc. apply IHs; [rewrite <- app_assoc; exact E|]. eapply CI_head; [exact Hc|]. rewrite <- app_assoc. exact E. }
  change (gargsP p h ++ Dof ctx) with (Dof ((h, []) :: ctx)). apply (B (nonargs h) []); [reflexivity|exact Hci].
Qed.

Theorem wf_spec_main fuel : spec_ok p own_of fuel main -> WF (splan fuel main main) [] [].
Proof. intros Hok. apply (wf_spec fuel main []); [|exact Hok]. eapply (CI_main [] (nonargs main)). reflexivity. Qed.
End Wf.
