(* DefUseFacts.v — DEFINED BEFORE USE ACROSS SCOPES, by construction (no validator).  For every operator application u that the
   scope resolution places in graph s and every non-argument application w that u takes an operand from:
     w is placed in a graph s_w that encloses s (s_w is s or an ancestor of s in the final scope tree), and
     - if s_w = s, w comes before u in the builder's topological order (hence earlier in the same GraphProto);
     - otherwise the chain from s up to s_w ends in a graph h whose carrier node o is placed in s_w, and w comes BEFORE o in the
       topological order: the value is defined in the enclosing GraphProto before the node whose body (transitively) uses it.
   From PlacementFacts (placement = lowest common ancestor of the user graphs; an operand's user graphs include those of its
   consumer), DiscoverFacts and the closedness of the DFS postorder. *)
From Coq Require Import List String NArith Arith Bool Lia.
From Spox Require Import Base IR Show Build Sem Plan Named Validate DfsFacts ReachFacts DiscoverFacts ScopeFacts EmitFacts CoverageFacts LcaFacts PlacementFacts BuildFacts.
Import ListNotations.
Open Scope list_scope.

Definition before_in (l : list nref) (a b : nref) : Prop := exists l1 l2 l3, l = l1 ++ a :: l2 ++ b :: l3.

Lemma closed_reach_before adj post : closed nref adj post -> forall o, In o post ->
  forall w, reach adj o w -> w = o \/ before_in post w o.
Proof.
  intros Hc o Ho w Hr. induction Hr as [|x y _ IH Hy]; [now left|]. right. destruct IH as [->|[a [b [c E]]]].
  - apply in_split in Ho. destruct Ho as [l1 [l2 E]]. pose proof (Hc l1 o l2 E y Hy) as Hin.
    apply in_split in Hin. destruct Hin as [a [b Eab]]. exists a, b, l2. rewrite E, Eab, <- app_assoc. reflexivity.
  - pose proof (Hc a x (b ++ o :: c) E y Hy) as Hin. apply in_split in Hin. destruct Hin as [a1 [a2 Ea]].
    exists a1, (a2 ++ x :: b), c. rewrite E, Ea. rewrite <- !app_assoc. cbn. reflexivity.
Qed.

Lemma before_in_filter (P : nref -> bool) : forall l a b, before_in l a b -> P a = true -> P b = true -> before_in (filter P l) a b.
Proof. intros l a b [l1 [l2 [l3 E]]] Ha Hb. exists (filter P l1), (filter P l2), (filter P l3).
  rewrite E, filter_app. cbn [filter]. rewrite Ha, filter_app. cbn [filter]. rewrite Hb. reflexivity. Qed.

Section DefUse.
Variable p : prog.
Variable rank : nref -> nat.
Hypothesis Hrank : forall u v, In v (full_adj p u) -> rank v < rank u.
Hypothesis Hfuel : forall u, rank u < fuel_of p.
Variable main : nat.
Variable d : dstate.
Hypothesis Hd : discover (fuel_of p) p dstate0 main = inl d.

Let gt := rev (d_post d).
Let own := d_own d.
Let scf := scopes_of p d.
Notation parf := (parf p d).
Notation Anc := (Anc p d).

Lemma Hdeps : forall a b, In b (deps p a) -> rank b < rank a.
Proof. intros a b Hb. apply Hrank. now apply deps_full. Qed.

(* an operand is traversed by every graph that traverses its consumer *)
Lemma users_mono u w E : In w (deps p u) -> In u (trav p E) -> In w (trav p E).
Proof. intros Hw Hu. unfold trav.
  eapply closed_In; [exact (proj1 (proj2 (postorder_spec (deps p) rank Hdeps (fuel_of p) (NIntro E) (Hfuel _))))|exact Hu|exact Hw]. Qed.

Lemma sc_total u E : In E (d_post d) -> In u (trav p E) -> exists s, lookup nref_eqb u scf = Some s.
Proof. intros HE Hu. assert (HK : K p gt (sc_at p d gt)) by (apply K_at).
  destruct HK as [_ K2]. apply (K2 E); [now apply -> in_rev|exact Hu]. Qed.
Lemma sc_in_gt u s : lookup nref_eqb u scf = Some s -> In s gt.
Proof. intros H. assert (HK : K p gt (sc_at p d gt)) by (apply K_at). destruct HK as [K1 _]. eapply K1. exact H. Qed.

Lemma main_no_owner : lookup Nat.eqb main own = None.
Proof.
  destruct (lookup Nat.eqb main own) as [o|] eqn:E; [|reflexivity]. exfalso.
  destruct (proj2 (discover_facts2 p rank Hrank main d Hd) main o E) as [k [D [Hk [HD Ho]]]].
  destruct (discover_facts p rank Hrank main d Hd) as [_ [_ [_ [_ Hreach]]]].
  pose proof (reach_rank _ (full_adj p) rank Hrank _ _ (Hreach D HD)) as H1.
  pose proof (trav_rank p rank Hrank D o Ho) as H2. pose proof (Hrank _ _ (subs_full _ _ _ _ Hk)) as H3. lia.
Qed.
Lemma up_main k : up parf k main = main.
Proof. assert (E : parf main = main). { unfold PlacementFacts.parf, parent. fold own. rewrite main_no_owner. reflexivity. }
  induction k as [|k IH]; [reflexivity|]. cbn [up]. rewrite E. exact IH. Qed.

(* the result node of a graph is reachable from the result node of each of its ancestors *)
Lemma reach_down : forall n l1 E l2, List.length l1 <= n -> gt = l1 ++ E :: l2 ->
  forall a, Anc a E -> reach (full_adj p) (NIntro a) (NIntro E).
Proof.
  induction n as [|n IH]; intros l1 E l2 Hn Egt a [k Hk].
  - destruct l1; [|cbn in Hn; lia]. destruct (Nat.eq_dec E main) as [->|Hne]; [rewrite up_main in Hk; subst; apply reach_refl|].
    destruct (parf_of_nonroot p rank Hrank main d Hd [] E l2 Egt Hne).
  - destruct k as [|k]; [cbn in Hk; subst; apply reach_refl|].
    destruct (Nat.eq_dec E main) as [->|Hne]; [rewrite up_main in Hk; subst; apply reach_refl|].
    destruct (discover_facts p rank Hrank main d Hd) as [_ [_ [Hown [Hjust _]]]].
    assert (Hp : In E (d_post d)). { apply in_rev. fold gt. rewrite Egt. apply in_or_app. right. now left. }
    destruct (Hjust E Hp) as [->|[D [x [k0 [HD [Hx Hk0]]]]]]; [contradiction|].
    destruct (Hown D HD x k0 E Hx Hk0) as [Ho _]. fold own in Ho.
    destruct (sc_total x D HD Hx) as [a1 Ha1].
    assert (Hpar : parf E = a1). { unfold PlacementFacts.parf, parent. fold own. rewrite Ho. fold scf. rewrite Ha1. reflexivity. }
    assert (HD1 : In D l1) by (exact (users_earlier p rank Hrank main d Hd l1 E l2 x k0 Egt Hk0 D HD Hx)).
    destruct (placement_is_lowest_common_ancestor p rank Hrank Hfuel main d Hd x a1 Ha1) as [Ma _].
    assert (HaD : Anc a D). { eapply Anc_trans; [exists k; cbn [up] in Hk; rewrite Hpar in Hk; exact Hk|]. now apply Ma. }
    apply in_split in HD1. destruct HD1 as [a' [b' Eab]].
    assert (Hr : reach (full_adj p) (NIntro a) (NIntro D)).
    { apply (IH a' D (b' ++ E :: l2)); [rewrite Eab, app_length in Hn; cbn in Hn; lia|rewrite Egt, Eab, <- app_assoc; reflexivity|exact HaD]. }
    eapply reach_step; [eapply reach_trans; [exact Hr|apply (trav_reach p D x Hx)]|]. eapply subs_full. exact Hk0.
Qed.

(* a node is reachable from the result node of the graph it is placed in *)
Lemma placed_reach u s : lookup nref_eqb u scf = Some s -> reach (full_adj p) (NIntro s) u.
Proof.
  intros Hs. destruct (placement_is_lowest_common_ancestor p rank Hrank Hfuel main d Hd u s Hs) as [Ma [_ [E [HE HuE]]]].
  assert (HEg : In E gt) by (now apply -> in_rev). apply in_split in HEg. destruct HEg as [l1 [l2 Egt]].
  eapply reach_trans; [apply (reach_down (List.length l1) l1 E l2 (le_n _) Egt s (Ma E HE HuE))|apply (trav_reach p E u HuE)].
Qed.

(* going up from s to c: either c = s, or the last link is a graph h below c whose carrier is placed in c *)
Lemma chain_last s : forall k c, up parf k s = c ->
  c = s \/ exists h o kk, Anc h s /\ In (kk, h) (subs_of p o) /\ lookup nref_eqb o scf = Some c /\
                          (exists D, In D (d_post d) /\ In o (trav p D)).
Proof.
  induction k as [|k IH]; intros c Hk; [now left|]. rewrite up_out in Hk. set (h := up parf k s) in *.
  unfold PlacementFacts.parf, parent in Hk. fold own scf in Hk.
  destruct (lookup Nat.eqb h own) as [o|] eqn:Eo; [|subst c; apply IH; reflexivity].
  destruct (lookup nref_eqb o scf) as [c'|] eqn:Ec; [|subst c; apply IH; reflexivity]. subst c'. right.
  destruct (proj2 (discover_facts2 p rank Hrank main d Hd) h o Eo) as [kk [D [Hkk [HD Ho]]]].
  exists h, o, kk. split; [exists k; reflexivity|]. split; [exact Hkk|]. split; [exact Ec|]. exists D. auto.
Qed.

Let topo := topo_of p main.
Let own_of := own_of_def p d main.

Lemma topo_closed : closed nref (full_adj p) topo.
Proof. unfold topo, topo_of. refine (proj1 (proj2 (postorder_spec (full_adj p) rank Hrank (2 * fuel_of p) (NIntro main) _))).
  specialize (Hfuel (NIntro main)). lia. Qed.

Theorem operands_are_defined_before_use_in_an_enclosing_graph s u w :
  In u (own_of s) -> In w (deps p u) -> is_arg p w = false ->
  exists s_w, In w (own_of s_w) /\ Anc s_w s /\
    ((s_w = s /\ before_in (own_of s) w u) \/
     (exists h o kk, Anc h s /\ In (kk, h) (subs_of p o) /\ In o (own_of s_w) /\ before_in (own_of s_w) w o)).
Proof.
  intros Hu Hw Hwa. unfold own_of, own_of_def in Hu. apply filter_In in Hu. destruct Hu as [Hut Hus].
  fold scf in Hus. destruct (lookup nref_eqb u scf) as [s'|] eqn:Es; [|discriminate]. apply Nat.eqb_eq in Hus. subst s'.
  destruct (placement_is_lowest_common_ancestor p rank Hrank Hfuel main d Hd u s Es) as [Mau [Mbu [E [HE HuE]]]].
  destruct (sc_total w E HE (users_mono u w E Hw HuE)) as [sw Esw].
  destruct (placement_is_lowest_common_ancestor p rank Hrank Hfuel main d Hd w sw Esw) as [Maw _].
  assert (Hanc : Anc sw s). { apply Mbu. intros E' HE' HuE'. apply Maw; [exact HE'|]. now apply (users_mono u w E'). }
  assert (Hwt : In w topo). { eapply closed_In; [apply topo_closed|exact Hut|]. now apply deps_full. }
  assert (Hw_own : In w (own_of sw)). { unfold own_of, own_of_def. apply filter_In. split; [exact Hwt|]. fold scf. rewrite Esw. apply Nat.eqb_refl. }
  exists sw. split; [exact Hw_own|]. split; [exact Hanc|].
  assert (Hsel : forall g x, lookup nref_eqb x scf = Some g ->
            (fun u0 => match lookup nref_eqb u0 (scopes_of p d) with Some s0 => Nat.eqb s0 g | None => false end) x = true).
  { intros g x Hx. fold scf. rewrite Hx. apply Nat.eqb_refl. }
  destruct Hanc as [k Hk]. destruct (chain_last s k sw Hk) as [->|[h [o [kk [Hh [Hkk [Eo [D [HD HoD]]]]]]]]].
  - left. split; [reflexivity|]. unfold own_of, own_of_def. apply before_in_filter; [|now apply Hsel|now apply Hsel].
    assert (Hr0 : reach (full_adj p) u w) by (eapply reach_step; [apply reach_refl|now apply deps_full]).
    destruct (closed_reach_before (full_adj p) topo topo_closed u Hut w Hr0) as [Heq|Hb]; [|exact Hb].
    exfalso. pose proof (Hdeps _ _ Hw). subst w. lia.
  - right. exists h, o, kk. split; [exact Hh|]. split; [exact Hkk|].
    destruct (discover_facts p rank Hrank main d Hd) as [_ [_ [_ [_ Hreach]]]].
    assert (Hot : In o topo).
    { apply (in_topo p rank Hrank Hfuel main). eapply reach_trans; [apply Hreach; exact HD|apply (trav_reach p D o HoD)]. }
    split; [unfold own_of, own_of_def; apply filter_In; split; [exact Hot|now apply Hsel]|].
    assert (Hsg : In s gt) by (eapply sc_in_gt; exact Es). apply in_split in Hsg. destruct Hsg as [l1 [l2 Egt]].
    assert (Hr : reach (full_adj p) o w).
    { eapply reach_step; [|apply deps_full; exact Hw]. eapply reach_trans; [|apply (placed_reach u s Es)].
      eapply reach_adj; [eapply subs_full; exact Hkk|]. apply (reach_down (List.length l1) l1 s l2 (le_n _) Egt h Hh). }
    unfold own_of, own_of_def. apply before_in_filter; [|now apply Hsel|now apply Hsel].
    destruct (closed_reach_before (full_adj p) topo topo_closed o Hot w Hr) as [->|Hb]; [|exact Hb].
    exfalso. assert (rank o < rank o); [|lia].
    assert (Hlt : forall x, reach (full_adj p) (NIntro h) x -> rank x < rank o).
    { intros x Hx. pose proof (reach_rank _ (full_adj p) rank Hrank _ _ Hx). pose proof (Hrank _ _ (subs_full _ _ _ _ Hkk)). lia. }
    pose proof (Hdeps _ _ Hw) as H1.
    assert (H2 : rank u < rank o).
    { apply Hlt. eapply reach_trans; [apply (reach_down (List.length l1) l1 s l2 (le_n _) Egt h Hh)|apply (placed_reach u s Es)]. }
    lia.
Qed.
End DefUse.
