(* NodeProtoFacts.v — proofs about NodeProto.v (C05, C18). *)
From Coq Require Import List String Ascii Bool Arith ZArith NArith Lia.
From Spox Require Import NodeProto.
Import ListNotations.
Local Open Scope list_scope.

(* ------------------------------------------------------------------------------------------------ strings *)
Lemma is_empty_true s : is_empty s = true <-> s = EmptyString.
Proof. unfold is_empty, seqb. apply String.eqb_eq. Qed.
Lemma is_empty_false s : is_empty s = false <-> s <> EmptyString.
Proof. unfold is_empty, seqb. apply String.eqb_neq. Qed.
Lemma sapp_nonempty a b : b <> EmptyString -> sapp a b <> EmptyString.
Proof. unfold sapp. destruct a; cbn; [tauto|discriminate]. Qed.
Lemma enum_key_nonempty key i : sapp key (sapp "_" (nat_str i)) <> EmptyString.
Proof. apply sapp_nonempty. cbn. discriminate. Qed.

(* ------------------------------------------------------------------------------------------------ trimming *)
Lemma pop_trailing_spec r m :
  exists k, r = repeat EmptyString k ++ pop_trailing r (List.length r) m.
Proof.
  induction r as [|x r IH]; [exists 0; reflexivity|].
  cbn [pop_trailing List.length]. destruct ((m <? S (List.length r)) && is_empty x) eqn:E.
  - apply andb_prop in E. destruct E as [_ E]. apply is_empty_true in E. subst x.
    cbn [pred]. destruct IH as [k Hk]. exists (S k). cbn [repeat app]. f_equal. exact Hk.
  - exists 0. reflexivity.
Qed.
Lemma repeat_rev {A} (x : A) k : List.rev (repeat x k) = repeat x k.
Proof.
  induction k; [reflexivity|]. cbn [repeat List.rev]. rewrite IHk. clear IHk.
  induction k; [reflexivity|]. cbn [repeat app]. f_equal. exact IHk.
Qed.
(* what is removed is a run of trailing empty names *)
Lemma trim_spec m l : exists k, l = trim m l ++ repeat EmptyString k.
Proof.
  unfold trim. destruct (pop_trailing_spec (List.rev l) m) as [k Hk]. rewrite rev_length in Hk. exists k.
  rewrite <- (rev_involutive l) at 1. rewrite Hk at 1. rewrite rev_app_distr, repeat_rev. reflexivity.
Qed.
Lemma pop_trailing_len r m : List.length r <= m -> pop_trailing r (List.length r) m = r.
Proof.
  destruct r as [|x r]; [reflexivity|]. cbn [pop_trailing List.length]. intros H.
  destruct (m <? S (List.length r)) eqn:E; [apply Nat.ltb_lt in E; lia|reflexivity].
Qed.
Lemma pop_trailing_min r m : m <= List.length r -> m <= List.length (pop_trailing r (List.length r) m).
Proof.
  induction r as [|x r IH]; intros H; [cbn in *; lia|].
  cbn [pop_trailing List.length]. destruct ((m <? S (List.length r)) && is_empty x) eqn:E.
  - apply andb_prop in E. destruct E as [E _]. apply Nat.ltb_lt in E. cbn [pred]. apply IH. lia.
  - exact H.
Qed.
Lemma pop_trailing_head r m x r' :
  pop_trailing r (List.length r) m = x :: r' -> m < List.length (x :: r') -> x <> EmptyString.
Proof.
  induction r as [|y r IH]; intros H Hl; [discriminate|].
  cbn [pop_trailing List.length] in H. destruct ((m <? S (List.length r)) && is_empty y) eqn:E.
  - cbn [pred] in H. exact (IH H Hl).
  - inversion H; subst y r'. cbn [List.length] in Hl. apply Nat.ltb_lt in Hl. rewrite Hl in E. cbn in E.
    apply is_empty_false. exact E.
Qed.
Lemma trim_length_le m l : List.length (trim m l) <= List.length l.
Proof. destruct (trim_spec m l) as [k Hk]. rewrite Hk at 2. rewrite app_length. lia. Qed.
Lemma trim_short m l : List.length l <= m -> trim m l = l.
Proof. intros H. unfold trim. rewrite <- rev_length in H. rewrite <- (rev_length l), pop_trailing_len by exact H. apply rev_involutive. Qed.
Lemma trim_min m l : m <= List.length l -> m <= List.length (trim m l).
Proof.
  intros H. unfold trim. rewrite rev_length. rewrite <- (rev_length l). apply pop_trailing_min. rewrite rev_length. exact H.
Qed.
(* nothing removable is left: beyond position m the last name is not empty *)
Lemma trim_last_nonempty m l : m < List.length (trim m l) -> last (trim m l) EmptyString <> EmptyString.
Proof.
  unfold trim. rewrite rev_length. rewrite <- (rev_length l).
  destruct (pop_trailing (List.rev l) (List.length (List.rev l)) m) as [|x r'] eqn:E; [cbn; lia|].
  intros Hl. cbn [List.rev]. rewrite last_last. exact (pop_trailing_head _ _ _ _ E Hl).
Qed.
Lemma trim_no_empty m l : (forall x, In x l -> x <> EmptyString) -> trim m l = l.
Proof.
  intros H. destruct (trim_spec m l) as [k Hk]. destruct k; [cbn in Hk; rewrite app_nil_r in Hk; symmetry; exact Hk|].
  exfalso. apply (H EmptyString); [|reflexivity]. rewrite Hk. apply in_or_app. right.
  replace (S k) with (k + 1) by lia. rewrite repeat_app. apply in_or_app. right. left. reflexivity.
Qed.

(* ------------------------------------------------------------------------------------------------ flatten / names *)
Lemma names_of_app nm a b : names_of nm (a ++ b) = names_of nm a ++ names_of nm b.
Proof. apply map_app. Qed.
Lemma names_of_enum nm key i (l : list nat) : names_of nm (enum_from key i l) = map nm l.
Proof. revert i. induction l as [|v l IH]; intros i; [reflexivity|]. cbn. f_equal. apply IH. Qed.
Lemma enum_length {V} key i (l : list V) : List.length (enum_from key i l) = List.length l.
Proof. revert i. induction l; intros; cbn; [reflexivity|f_equal; auto]. Qed.

Definition all_vars (al : list (arg nat)) : list nat := flat_map arg_vars al.

Lemma repeat_eq_cons {A} (x y : A) k l : y :: l = repeat x k -> y = x /\ exists k', k = S k' /\ l = repeat x k'.
Proof. destruct k; [discriminate|]. cbn. intros H. inversion H. split; [reflexivity|]. exists k. split; reflexivity. Qed.

(* all of the remaining names are empty: every remaining parameter is an omitted optional or an empty variadic *)
Lemma bind_all_empty nm : forall sl al k,
  (forall v, In v (all_vars al) -> nm v <> EmptyString) ->
  variadic_last sl = true -> args_ok sl al = true ->
  names_of nm (flatten sl al) = repeat EmptyString k ->
  bind_slots sl [] = Some (map (amap nm) al).
Proof.
  induction sl as [|[key kd] sl IH]; intros al k Hnm Hv Ha Hn.
  - destruct al; [reflexivity|discriminate].
  - destruct al as [|a al]; [discriminate|]. cbn [args_ok snd] in Ha. apply andb_prop in Ha. destruct Ha as [Hk Ha].
    cbn [flatten fst] in Hn. rewrite names_of_app in Hn.
    assert (Hnm1 : forall v, In v (arg_vars a) -> nm v <> EmptyString)
      by (intros v Hin; apply Hnm; unfold all_vars; cbn [flat_map]; apply in_or_app; left; exact Hin).
    assert (Hnm2 : forall v, In v (all_vars al) -> nm v <> EmptyString)
      by (intros v Hin; apply Hnm; unfold all_vars; cbn [flat_map]; apply in_or_app; right; exact Hin).
    destruct kd, a; try discriminate; cbn [flatten1] in Hn;
      [unfold names_of at 1 in Hn; cbn [map snd app] in Hn ..|].
    + (* single *) apply repeat_eq_cons in Hn. destruct Hn as [Hn _]. exfalso. apply (Hnm1 v); [left; reflexivity|exact Hn].
    + (* optional *) destruct o as [v|].
      * apply repeat_eq_cons in Hn. destruct Hn as [Hn _]. exfalso. apply (Hnm1 v); [left; reflexivity|exact Hn].
      * apply repeat_eq_cons in Hn. destruct Hn as [_ [k' [_ Hn]]].
        cbn [bind_slots variadic_last] in *. rewrite (IH al k' Hnm2 Hv Ha Hn). reflexivity.
    + (* variadic: last *) cbn [variadic_last] in Hv. destruct sl; [|discriminate].
      destruct al; [|discriminate]. cbn [flatten] in Hn. rewrite app_nil_r in Hn.
      rewrite names_of_enum in Hn. destruct l as [|v l].
      * reflexivity.
      * cbn [map] in Hn. apply repeat_eq_cons in Hn. destruct Hn as [Hn _]. exfalso. apply (Hnm1 v); [left; reflexivity|exact Hn].
Qed.

(* the general round trip: any prefix of the full name list whose removed part consists of empty names binds back to
   the arguments *)
Lemma bind_prefix nm : forall sl al p k,
  (forall v, In v (all_vars al) -> nm v <> EmptyString) ->
  variadic_last sl = true -> args_ok sl al = true ->
  names_of nm (flatten sl al) = p ++ repeat EmptyString k ->
  bind_slots sl p = Some (map (amap nm) al).
Proof.
  induction sl as [|[key kd] sl IH]; intros al p k Hnm Hv Ha Hn.
  - destruct al; [|discriminate]. cbn in Hn. destruct p; [reflexivity|discriminate].
  - destruct p as [|x p].
    { cbn [app] in Hn. exact (bind_all_empty nm _ _ _ Hnm Hv Ha Hn). }
    destruct al as [|a al]; [discriminate|]. pose proof Ha as Ha0.
    cbn [args_ok snd] in Ha. apply andb_prop in Ha. destruct Ha as [Hk Ha].
    cbn [flatten fst] in Hn. rewrite names_of_app in Hn.
    assert (Hnm1 : forall v, In v (arg_vars a) -> nm v <> EmptyString)
      by (intros v Hin; apply Hnm; unfold all_vars; cbn [flat_map]; apply in_or_app; left; exact Hin).
    assert (Hnm2 : forall v, In v (all_vars al) -> nm v <> EmptyString)
      by (intros v Hin; apply Hnm; unfold all_vars; cbn [flat_map]; apply in_or_app; right; exact Hin).
    destruct kd, a; try discriminate; cbn [flatten1] in Hn;
      [unfold names_of at 1 in Hn; cbn [map snd app] in Hn ..|].
    + (* single *) inversion Hn as [[Hx Hr]]. cbn [bind_slots variadic_last] in *.
      destruct (is_empty (nm v)) eqn:E; [apply is_empty_true in E; exfalso; apply (Hnm1 v); [left; reflexivity|exact E]|].
      rewrite (IH al p k Hnm2 Hv Ha Hr). reflexivity.
    + (* optional *) inversion Hn as [[Hx Hr]]. cbn [bind_slots variadic_last] in *.
      rewrite (IH al p k Hnm2 Hv Ha Hr). cbn [option_map map amap].
      destruct o as [v|]; cbn [option_map].
      * destruct (is_empty (nm v)) eqn:E; [apply is_empty_true in E; exfalso; apply (Hnm1 v); [left; reflexivity|exact E]|reflexivity].
      * reflexivity.
    + (* variadic *) cbn [variadic_last] in Hv. destruct sl; [|discriminate]. destruct al; [|discriminate].
      cbn [flatten] in Hn. rewrite app_nil_r in Hn. rewrite names_of_enum in Hn.
      cbn [bind_slots map amap]. destruct k.
      * cbn [repeat] in Hn. rewrite app_nil_r in Hn. rewrite Hn. reflexivity.
      * exfalso. assert (Hin : In EmptyString (map nm l)).
        { rewrite Hn. apply in_or_app. right. left. reflexivity. }
        apply in_map_iff in Hin. destruct Hin as [v [Hv' Hv'']]. exact (Hnm1 v Hv'' Hv').
Qed.

Theorem inputs_roundtrip nm nn bs c :
  (forall v, In v (all_vars (c_ins c)) -> nm v <> EmptyString) ->
  variadic_last (s_ins (c_sig c)) = true -> args_ok (s_ins (c_sig c)) (c_ins c) = true ->
  bind_slots (s_ins (c_sig c)) (n_inputs (emit nm nn bs c)) = Some (map (amap nm) (c_ins c)).
Proof.
  intros Hnm Hv Ha. cbn [emit n_inputs].
  destruct (trim_spec (min_in c) (names_of nm (in_flat c))) as [k Hk].
  exact (bind_prefix nm _ _ _ k Hnm Hv Ha Hk).
Qed.
Theorem outputs_roundtrip nm nn bs c :
  (forall v, In v (all_vars (c_outs c)) -> nm v <> EmptyString) ->
  variadic_last (s_outs (c_sig c)) = true -> args_ok (s_outs (c_sig c)) (c_outs c) = true ->
  bind_slots (s_outs (c_sig c)) (n_outputs (emit nm nn bs c)) = Some (map (amap nm) (c_outs c)).
Proof.
  intros Hnm Hv Ha. cbn [emit n_outputs].
  destruct (trim_spec (min_out c) (names_of nm (out_flat c))) as [k Hk].
  exact (bind_prefix nm _ _ _ k Hnm Hv Ha Hk).
Qed.

(* the emitted list is the canonical one: a prefix of the full positional list that differs from it by trailing
   empty names only, never shorter than min_input (when enough arguments exist at all), with no removable name left *)
Theorem inputs_canonical nm nn bs c :
  let full := names_of nm (in_flat c) in
  let out := n_inputs (emit nm nn bs c) in
  (exists k, full = out ++ repeat EmptyString k) /\
  (min_in c <= List.length full -> min_in c <= List.length out) /\
  (min_in c < List.length out -> last out EmptyString <> EmptyString) /\
  (List.length full <= min_in c -> out = full).
Proof.
  cbn [emit n_inputs]. split; [apply trim_spec|]. split; [apply trim_min|]. split; [apply trim_last_nonempty|apply trim_short].
Qed.
Theorem outputs_canonical nm nn bs c :
  let full := names_of nm (out_flat c) in
  let out := n_outputs (emit nm nn bs c) in
  (exists k, full = out ++ repeat EmptyString k) /\
  (min_out c <= List.length full -> min_out c <= List.length out) /\
  (min_out c < List.length out -> last out EmptyString <> EmptyString) /\
  (List.length full <= min_out c -> out = full).
Proof.
  cbn [emit n_outputs]. split; [apply trim_spec|]. split; [apply trim_min|]. split; [apply trim_last_nonempty|apply trim_short].
Qed.

(* ------------------------------------------------------------------------------------------------ outputs are all materialised *)
Lemma init_outputs_ok sl k f : args_ok sl (init_outputs sl k f) = true.
Proof. revert f. induction sl as [|[key kd] sl IH]; intros f; [reflexivity|]. destruct kd; cbn; apply IH. Qed.
Definition all_present (al : list (arg nat)) : bool :=
  forallb (fun a => match a with AOpt None => false | _ => true end) al.
Lemma present_names_nonempty nm : forall sl al,
  (forall v, In v (all_vars al) -> nm v <> EmptyString) -> all_present al = true ->
  forall x, In x (names_of nm (flatten sl al)) -> x <> EmptyString.
Proof.
  induction sl as [|[key kd] sl IH]; intros al Hnm Hp x Hin; [destruct Hin|].
  destruct al as [|a al]; [destruct Hin|]. cbn [flatten fst] in Hin. rewrite names_of_app in Hin.
  cbn [all_present forallb] in Hp. apply andb_prop in Hp. destruct Hp as [Hp1 Hp2].
  assert (Hnm1 : forall v, In v (arg_vars a) -> nm v <> EmptyString)
    by (intros v Hv; apply Hnm; unfold all_vars; cbn [flat_map]; apply in_or_app; left; exact Hv).
  assert (Hnm2 : forall v, In v (all_vars al) -> nm v <> EmptyString)
    by (intros v Hv; apply Hnm; unfold all_vars; cbn [flat_map]; apply in_or_app; right; exact Hv).
  apply in_app_or in Hin. destruct Hin as [Hin|Hin]; [|exact (IH al Hnm2 Hp2 x Hin)].
  destruct a as [v|[v|]|l]; cbn [flatten1] in Hin.
  - cbn in Hin. destruct Hin as [<-|[]]. apply Hnm1. left; reflexivity.
  - cbn in Hin. destruct Hin as [<-|[]]. apply Hnm1. left; reflexivity.
  - discriminate.
  - rewrite names_of_enum in Hin. apply in_map_iff in Hin. destruct Hin as [v [<- Hv]]. apply Hnm1. exact Hv.
Qed.
Lemma init_outputs_present sl k f : all_present (init_outputs sl k f) = true.
Proof. revert f. induction sl as [|[key kd] sl IH]; intros f; [reflexivity|]. destruct kd; cbn; apply IH. Qed.
Fixpoint declared_count (sl : list slot) (k : nat) : nat :=
  match sl with [] => 0 | (_, KVariadic) :: t => k + declared_count t k | _ :: t => S (declared_count t k) end.
Lemma init_outputs_count sl k f : List.length (flatten sl (init_outputs sl k f)) = declared_count sl k.
Proof.
  revert f. induction sl as [|[key kd] sl IH]; intros f; [reflexivity|].
  destruct kd; cbn [init_outputs flatten fst declared_count]; rewrite app_length, IH; cbn [flatten1 List.length]; try lia.
  rewrite enum_length, seq_length. reflexivity.
Qed.
(* a node whose outputs were created by _init_output_vars names every declared output: nothing is omitted, nothing trimmed *)
Theorem outputs_all_emitted nm nn bs c k f :
  (forall v, In v (all_vars (c_outs c)) -> nm v <> EmptyString) -> c_outs c = init_outputs (s_outs (c_sig c)) k f ->
  n_outputs (emit nm nn bs c) = names_of nm (out_flat c) /\
  List.length (n_outputs (emit nm nn bs c)) = declared_count (s_outs (c_sig c)) k /\
  (forall x, In x (n_outputs (emit nm nn bs c)) -> x <> EmptyString).
Proof.
  intros Hnm Ho. cbn [emit n_outputs]. unfold out_flat.
  assert (H : forall x, In x (names_of nm (flatten (s_outs (c_sig c)) (c_outs c))) -> x <> EmptyString).
  { apply present_names_nonempty; [exact Hnm|]. rewrite Ho. apply init_outputs_present. }
  rewrite (trim_no_empty _ _ H). split; [reflexivity|]. split; [|exact H].
  unfold names_of. rewrite map_length, Ho. apply init_outputs_count.
Qed.

(* ------------------------------------------------------------------------------------------------ generic nodes: nothing trimmed *)
Theorem generic_not_trimmed nm nn bs c :
  s_min (c_sig c) = None ->
  n_inputs (emit nm nn bs c) = names_of nm (in_flat c) /\ n_outputs (emit nm nn bs c) = names_of nm (out_flat c).
Proof.
  intros H. cbn [emit n_inputs n_outputs]. unfold min_in, min_out. rewrite H.
  split; apply trim_short; unfold names_of; rewrite map_length; lia.
Qed.

(* ------------------------------------------------------------------------------------------------ attributes *)
Definition attr_emitted (bs : string -> list ty -> list ty -> graph) (a : attr) : option (string * oaval) :=
  match a_set a with
  | None => None
  | Some (_, AvGraph args res) => Some (a_key a, OvGraph (bs (a_key a) args res))
  | Some (name, AvData k p) => Some (name, OvData k p)
  end.
Fixpoint filter_map {A B} (f : A -> option B) (l : list A) : list B :=
  match l with [] => [] | x :: t => match f x with Some y => y :: filter_map f t | None => filter_map f t end end.
Theorem attrs_forwarded nm nn bs c : n_attrs (emit nm nn bs c) = filter_map (attr_emitted bs) (c_attrs c).
Proof.
  cbn [emit n_attrs]. induction (c_attrs c) as [|a l IH]; [reflexivity|]. cbn [flat_map filter_map]. rewrite IH.
  unfold emit_attr, attr_emitted. destruct (a_set a) as [[n [k p|ar re]]|]; reflexivity.
Qed.
(* under the generated constructors' convention (Attr name = field name) the emitted names are the field keys of the
   set attributes, in declaration order *)
Theorem attrs_names nm nn bs c :
  (forall a n v, In a (c_attrs c) -> a_set a = Some (n, v) -> n = a_key a) ->
  map fst (n_attrs (emit nm nn bs c)) =
  map a_key (filter (fun a => match a_set a with Some _ => true | None => false end) (c_attrs c)).
Proof.
  intros H. rewrite attrs_forwarded. induction (c_attrs c) as [|a l IH]; [reflexivity|].
  cbn [filter_map filter]. unfold attr_emitted at 1. destruct (a_set a) as [[n [k p|ar re]]|] eqn:E.
  - cbn [map fst]. rewrite (H a n _ (or_introl eq_refl) E). f_equal. apply IH. intros. eapply H; [right|]; eassumption.
  - cbn [map fst]. f_equal. apply IH. intros. eapply H; [right|]; eassumption.
  - apply IH. intros. eapply H; [right|]; eassumption.
Qed.

(* ------------------------------------------------------------------------------------------------ dict / scope *)
Lemma dict_set_fresh {V} (d : list (string * V)) k v : ~ In k (map fst d) -> dict_set d k v = d ++ [(k, v)].
Proof.
  induction d as [|[k' v'] d IH]; intros H; [reflexivity|]. cbn [dict_set]. cbn [map fst In] in H.
  destruct (seqb k' k) eqn:E; [apply String.eqb_eq in E; tauto|]. cbn [app]. f_equal. apply IH. tauto.
Qed.
Lemma somes_keys {V} (fl : list (string * option V)) k : In k (map fst (somes fl)) -> In k (map fst fl).
Proof.
  induction fl as [|[k' [v|]] fl IH]; cbn; [tauto| |]; intros H.
  - destruct H; [left; assumption|right; auto].
  - right; auto.
Qed.
Lemma get_vars_acc {V} (fl : list (string * option V)) d :
  NoDup (map fst d ++ map fst fl) ->
  fold_left (fun d kv => match snd kv with Some v => dict_set d (fst kv) v | None => d end) fl d = d ++ somes fl.
Proof.
  revert d. induction fl as [|[k [v|]] fl IH]; intros d H; cbn [fold_left somes snd fst].
  - symmetry. apply app_nil_r.
  - cbn [map fst] in H. rewrite dict_set_fresh.
    + rewrite IH; [rewrite <- app_assoc; reflexivity|]. rewrite map_app. cbn [map fst]. rewrite <- app_assoc. exact H.
    + apply NoDup_remove_2 in H. intros Hin. apply H. apply in_or_app. left. exact Hin.
  - apply IH. cbn [map fst] in H. apply NoDup_remove_1 in H. exact H.
Qed.
Lemma get_vars_somes {V} (fl : list (string * option V)) : NoDup (map fst fl) -> get_vars fl = somes fl.
Proof. intros H. unfold get_vars. rewrite get_vars_acc; [reflexivity|exact H]. Qed.

Lemma nodupb_NoDup l : nodupb l = true -> NoDup l.
Proof.
  induction l as [|x l IH]; intros H; [constructor|]. cbn [nodupb] in H. apply andb_prop in H. destruct H as [H1 H2].
  constructor; [|auto]. intros Hin. apply negb_true_iff in H1.
  assert (existsb (seqb x) l = true) by (apply existsb_exists; exists x; split; [exact Hin|apply String.eqb_refl]). congruence.
Qed.
Lemma NoDup_app_l {A} (a b : list A) : NoDup (a ++ b) -> NoDup a.
Proof. induction a; intros H; [constructor|]. inversion H; subst. constructor; [intros Hin; apply H2; apply in_or_app; left; exact Hin|auto]. Qed.
Lemma NoDup_app_r {A} (a b : list A) : NoDup (a ++ b) -> NoDup b.
Proof. induction a; intros H; [exact H|]. inversion H; subst. auto. Qed.

Lemma somes_nodup {V} (fl : list (string * option V)) : NoDup (map fst fl) -> NoDup (map fst (somes fl)).
Proof.
  induction fl as [|[k [v|]] fl IH]; cbn [somes map fst]; intros H; [constructor| |].
  - inversion H; subst. constructor; [intros Hin; apply H2; apply somes_keys; exact Hin|auto].
  - inversion H; auto.
Qed.

Fixpoint first_key (kvs : list (string * nat)) (v : nat) : option string :=
  match kvs with [] => None | (k, w) :: t => if Nat.eqb w v then Some k else first_key t v end.
Lemma scope_name_app sc v k w :
  scope_name (sc ++ [(v, k)]) w = match scope_name sc w with Some x => Some x | None => if Nat.eqb v w then Some k else None end.
Proof.
  induction sc as [|[u x] sc IH]; cbn [app scope_name]; [reflexivity|]. destruct (Nat.eqb u w); [reflexivity|exact IH].
Qed.
(* first key wins *)
Lemma scope_fill_names kvs : forall sc sc', scope_fill sc kvs = Some sc' ->
  forall v, scope_name sc' v = match scope_name sc v with Some k => Some k | None => first_key kvs v end.
Proof.
  induction kvs as [|[k w] kvs IH]; intros sc sc' H v; cbn [scope_fill first_key] in *.
  - inversion H; subst. destruct (scope_name sc' v); reflexivity.
  - destruct (scope_name sc w) eqn:Ew.
    + rewrite (IH _ _ H v). destruct (scope_name sc v) eqn:Ev; [reflexivity|].
      destruct (Nat.eqb w v) eqn:E; [apply Nat.eqb_eq in E; subst; congruence|reflexivity].
    + destruct (scope_has_key sc k); [discriminate|]. rewrite (IH _ _ H v). rewrite scope_name_app.
      destruct (scope_name sc v); [reflexivity|]. destruct (Nat.eqb w v); reflexivity.
Qed.
Lemma scope_has_key_app sc v k k' : scope_has_key (sc ++ [(v, k)]) k' = scope_has_key sc k' || seqb k k'.
Proof. unfold scope_has_key. rewrite existsb_app. cbn. rewrite orb_false_r. reflexivity. Qed.
(* distinct keys: no ScopeError *)
Lemma scope_fill_ok kvs : forall sc, NoDup (map fst kvs) ->
  (forall k, scope_has_key sc k = true -> ~ In k (map fst kvs)) -> exists sc', scope_fill sc kvs = Some sc'.
Proof.
  induction kvs as [|[k w] kvs IH]; intros sc Hnd Hsc; cbn [scope_fill]; [eexists; reflexivity|].
  cbn [map fst] in *. inversion Hnd; subst.
  destruct (scope_name sc w).
  - apply IH; [assumption|]. intros k' Hk' Hin. apply (Hsc k' Hk'). right. exact Hin.
  - destruct (scope_has_key sc k) eqn:E; [exfalso; apply (Hsc k E); left; reflexivity|].
    apply IH; [assumption|]. intros k' Hk' Hin. rewrite scope_has_key_app in Hk'. apply orb_prop in Hk'. destruct Hk' as [Hk'|Hk'].
    + apply (Hsc k' Hk'). right. exact Hin.
    + apply String.eqb_eq in Hk'. subst k'. tauto.
Qed.
Lemma first_key_in kvs v k : first_key kvs v = Some k -> In (k, v) kvs.
Proof.
  induction kvs as [|[k' w] kvs IH]; cbn [first_key]; [discriminate|]. destruct (Nat.eqb w v) eqn:E.
  - apply Nat.eqb_eq in E. subst. intros H; inversion H; subst. left; reflexivity.
  - intros H. right. auto.
Qed.
Lemma first_key_some kvs v : In v (map snd kvs) -> exists k, first_key kvs v = Some k.
Proof.
  induction kvs as [|[k' w] kvs IH]; cbn [first_key map snd]; [intros []|]. intros [H|H].
  - subst. rewrite Nat.eqb_refl. eexists; reflexivity.
  - destruct (Nat.eqb w v); [eexists; reflexivity|auto].
Qed.
Lemma first_key_app_l a b v k : first_key a v = Some k -> first_key (a ++ b) v = Some k.
Proof. induction a as [|[k' w] a IH]; cbn [first_key app]; [discriminate|]. destruct (Nat.eqb w v); auto. Qed.
Lemma in_keys_unique (kvs : list (string * nat)) k v w : NoDup (map fst kvs) -> In (k, v) kvs -> In (k, w) kvs -> v = w.
Proof.
  induction kvs as [|[k' u] kvs IH]; intros Hnd H1 H2; [destruct H1|]. cbn [map fst] in Hnd. inversion Hnd; subst.
  destruct H1 as [H1|H1], H2 as [H2|H2].
  - congruence.
  - inversion H1; subst. exfalso. apply H3. apply in_map_iff. exists (k, w). split; [reflexivity|exact H2].
  - inversion H2; subst. exfalso. apply H3. apply in_map_iff. exists (k, v). split; [reflexivity|exact H1].
  - eauto.
Qed.

(* ------------------------------------------------------------------------------------------------ the singleton model *)
Lemma keys_ok_nodup c : keys_ok c = true -> NoDup (map fst (in_flat c) ++ map fst (out_flat c)).
Proof. unfold keys_ok. intros H. apply andb_prop in H. destruct H as [H _]. apply nodupb_NoDup. exact H. Qed.
Lemma keys_ok_vars c : keys_ok c = true ->
  get_vars (in_flat c) = somes (in_flat c) /\ get_vars (out_flat c) = somes (out_flat c) /\
  NoDup (map fst (somes (in_flat c) ++ somes (out_flat c))).
Proof.
  intros H. apply keys_ok_nodup in H. split; [apply get_vars_somes; eapply NoDup_app_l; exact H|].
  split; [apply get_vars_somes; eapply NoDup_app_r; exact H|].
  rewrite map_app.
  (* sub-list of a NoDup list *)
  revert H. generalize (out_flat c). induction (in_flat c) as [|[k [v|]] fl IH]; intros ofl H; cbn [somes map fst app] in *.
  - apply somes_nodup. exact H.
  - inversion H; subst. constructor; [|auto]. intros Hin. apply H2. apply in_app_or in Hin. apply in_or_app.
    destruct Hin as [Hin|Hin]; [left|right]; apply somes_keys; exact Hin.
  - inversion H; subst. auto.
Qed.
Lemma input_infos_ok env kvs :
  (forall v, In v (map snd kvs) -> vi_ty (vlookup env v) <> None) -> exists r, input_infos env kvs = Some r.
Proof.
  induction kvs as [|[k v] kvs IH]; intros H; cbn [input_infos]; [eexists; reflexivity|].
  destruct (vi_ty (vlookup env v)) eqn:E; [|exfalso; apply (H v); [left; reflexivity|exact E]].
  destruct IH as [r Hr]; [intros w Hw; apply H; right; exact Hw|]. rewrite Hr. eexists; reflexivity.
Qed.
Lemma input_infos_in env kvs r k v t :
  input_infos env kvs = Some r -> In (k, v) kvs -> vi_ty (vlookup env v) = Some t -> In (k, to_onnx t) r.
Proof.
  revert r. induction kvs as [|[k' w] kvs IH]; intros r Hr Hin Ht; [destruct Hin|]. cbn [input_infos] in Hr.
  destruct (vi_ty (vlookup env w)) eqn:E; [|discriminate]. destruct (input_infos env kvs) eqn:E2; [|discriminate].
  inversion Hr; subst. destruct Hin as [Hin|Hin].
  - inversion Hin; subst. rewrite E in Ht. inversion Ht; subst. left; reflexivity.
  - right. eapply IH; eauto.
Qed.
Lemma input_infos_keys env kvs r : input_infos env kvs = Some r -> map fst r = map fst kvs.
Proof.
  revert r. induction kvs as [|[k w] kvs IH]; intros r Hr; cbn [input_infos] in Hr; [inversion Hr; reflexivity|].
  destruct (vi_ty (vlookup env w)); [|discriminate]. destruct (input_infos env kvs) eqn:E2; [|discriminate].
  inversion Hr; subst. cbn. f_equal. apply IH. reflexivity.
Qed.
Lemma initializers_in env kvs k v a : In (k, v) kvs -> vi_const (vlookup env v) = Some a -> In (k, a) (initializers env kvs).
Proof.
  induction kvs as [|[k' w] kvs IH]; intros Hin Ha; [destruct Hin|]. cbn [initializers]. destruct Hin as [Hin|Hin].
  - inversion Hin; subst. rewrite Ha. left; reflexivity.
  - destruct (vi_const (vlookup env w)); [right|]; auto.
Qed.
Lemma initializers_only env kvs k a : In (k, a) (initializers env kvs) -> exists v, In (k, v) kvs /\ vi_const (vlookup env v) = Some a.
Proof.
  induction kvs as [|[k' w] kvs IH]; cbn [initializers]; [intros []|]. destruct (vi_const (vlookup env w)) eqn:E.
  - intros [H|H]; [inversion H; subst; exists w; split; [left; reflexivity|exact E]|].
    destruct (IH H) as [v [H1 H2]]. exists v. split; [right; exact H1|exact H2].
  - intros H. destruct (IH H) as [v [H1 H2]]. exists v. split; [right; exact H1|exact H2].
Qed.
Lemma somes_in {V} (fl : list (string * option V)) k v : In (k, Some v) fl <-> In (k, v) (somes fl).
Proof.
  induction fl as [|[k' [w|]] fl IH]; cbn [somes In]; [tauto| |].
  - split; intros [H|H]; try (inversion H; subst; left; reflexivity); right; apply IH; exact H.
  - split; [intros [H|H]; [discriminate|apply IH; exact H]|intros H; right; apply IH; exact H].
Qed.

Lemma untyped_false c : some_input_untyped c = false -> forall v, In v (input_vars c) -> vi_ty (vlookup (c_env c) v) <> None.
Proof.
  unfold some_input_untyped. intros H v Hin E.
  assert (existsb (fun v => match vi_ty (vlookup (c_env c) v) with None => true | Some _ => false end) (input_vars c) = true).
  { apply existsb_exists. exists v. split; [exact Hin|]. rewrite E. reflexivity. }
  congruence.
Qed.

(* the singleton model exists whenever keys are distinct and all inputs are typed; its naming is first-key-wins and
   injective; value infos and initializers sit under the names the node uses *)
Theorem singleton_ok c :
  keys_ok c = true -> some_input_untyped c = false ->
  exists sc m, scope_fill [] (somes (in_flat c) ++ somes (out_flat c)) = Some sc /\ singleton c = SOk m /\
    m_node m = emit (nm_of sc) "_this_" dummy_subgraph c /\
    m_opset m = (s_domain (c_sig c), s_version (c_sig c)) /\
    map fst (m_outputs m) = out_keys c /\ (forall e, In e (m_outputs m) -> snd e = None) /\
    map fst (m_inputs m) = map fst (somes (in_flat c)).
Proof.
  intros Hk Hu. destruct (keys_ok_vars c Hk) as [Hi [Ho Hnd]].
  destruct (scope_fill_ok (somes (in_flat c) ++ somes (out_flat c)) [] Hnd) as [sc Hsc]; [intros k Hk'; discriminate|].
  destruct (input_infos_ok (c_env c) (somes (in_flat c))) as [r Hr].
  { intros v Hv. apply (untyped_false c Hu). unfold input_vars. rewrite Hi. exact Hv. }
  exists sc. eexists. split; [exact Hsc|]. unfold singleton. rewrite Hi, Ho, Hsc, Hr.
  split; [reflexivity|]. cbn [m_node m_opset m_outputs m_inputs]. split; [reflexivity|]. split; [reflexivity|].
  split; [unfold out_keys; rewrite Ho, map_map; reflexivity|]. split.
  - intros e He. apply in_map_iff in He. destruct He as [x [<- _]]. reflexivity.
  - apply (input_infos_keys _ _ _ Hr).
Qed.

Theorem singleton_first_key c sc :
  scope_fill [] (somes (in_flat c) ++ somes (out_flat c)) = Some sc ->
  forall v, scope_name sc v = first_key (somes (in_flat c) ++ somes (out_flat c)) v.
Proof. intros H v. rewrite (scope_fill_names _ _ _ H v). reflexivity. Qed.

Theorem singleton_names_injective c sc :
  keys_ok c = true -> scope_fill [] (somes (in_flat c) ++ somes (out_flat c)) = Some sc ->
  forall v w, In v (map snd (somes (in_flat c) ++ somes (out_flat c))) -> In w (map snd (somes (in_flat c) ++ somes (out_flat c))) ->
  nm_of sc v = nm_of sc w -> v = w.
Proof.
  intros Hk Hsc v w Hv Hw. destruct (keys_ok_vars c Hk) as [_ [_ Hnd]].
  unfold nm_of. rewrite !(singleton_first_key c sc Hsc).
  destruct (first_key_some _ _ Hv) as [k1 H1]. destruct (first_key_some _ _ Hw) as [k2 H2]. rewrite H1, H2. intros <-.
  eapply in_keys_unique; [exact Hnd| |]; apply first_key_in; eassumption.
Qed.

Lemma keys_nonempty c k v : keys_ok c = true -> In (k, v) (somes (in_flat c) ++ somes (out_flat c)) -> k <> EmptyString.
Proof.
  unfold keys_ok. intros H Hin. apply andb_prop in H. destruct H as [_ H]. rewrite forallb_forall in H.
  apply is_empty_false. apply negb_true_iff. apply H.
  apply in_app_or in Hin. apply in_or_app. destruct Hin as [Hin|Hin]; [left|right]; apply somes_keys;
    apply in_map_iff; exists (k, v); split; [reflexivity|exact Hin|reflexivity|exact Hin].
Qed.
Theorem singleton_names_nonempty c sc :
  keys_ok c = true -> scope_fill [] (somes (in_flat c) ++ somes (out_flat c)) = Some sc ->
  forall v, In v (map snd (somes (in_flat c) ++ somes (out_flat c))) -> nm_of sc v <> EmptyString.
Proof.
  intros Hk Hsc v Hv. unfold nm_of. rewrite (singleton_first_key c sc Hsc). destruct (first_key_some _ _ Hv) as [k1 H1].
  rewrite H1. eapply keys_nonempty; [exact Hk|]. apply first_key_in. exact H1.
Qed.

(* typed inputs and constant operands are forwarded under the name the node uses for them *)
Theorem inputs_forwarded c sc m :
  keys_ok c = true -> scope_fill [] (somes (in_flat c) ++ somes (out_flat c)) = Some sc -> singleton c = SOk m ->
  forall k v, In (k, Some v) (in_flat c) ->
    (forall t, vi_ty (vlookup (c_env c) v) = Some t -> In (nm_of sc v, to_onnx t) (m_inputs m)) /\
    (forall a, vi_const (vlookup (c_env c) v) = Some a -> In (nm_of sc v, a) (m_inits m)).
Proof.
  intros Hk Hsc Hm k v Hin. destruct (keys_ok_vars c Hk) as [Hi [Ho Hnd]].
  unfold singleton in Hm. rewrite Hi, Ho, Hsc in Hm. destruct (input_infos (c_env c) (somes (in_flat c))) as [r|] eqn:Hr; [|discriminate].
  inversion Hm; subst m. cbn [m_inputs m_inits]. clear Hm.
  apply somes_in in Hin.
  assert (Hv : In v (map snd (somes (in_flat c)))) by (apply in_map_iff; exists (k, v); split; [reflexivity|exact Hin]).
  destruct (first_key_some _ _ Hv) as [k0 Hk0]. pose proof (first_key_in _ _ _ Hk0) as Hin0.
  assert (Hnm : nm_of sc v = k0).
  { unfold nm_of. rewrite (singleton_first_key c sc Hsc). rewrite (first_key_app_l _ _ _ _ Hk0). reflexivity. }
  rewrite Hnm. split.
  - intros t Ht. eapply input_infos_in; eassumption.
  - intros a Ha. eapply initializers_in; eassumption.
Qed.
(* nothing else is an initializer: every initializer is the constant of an input, under one of that input's keys *)
Theorem inits_only_consts c m :
  keys_ok c = true -> singleton c = SOk m ->
  forall k a, In (k, a) (m_inits m) -> exists v, In (k, Some v) (in_flat c) /\ vi_const (vlookup (c_env c) v) = Some a.
Proof.
  intros Hk Hm k a Hin. destruct (keys_ok_vars c Hk) as [Hi [Ho Hnd]].
  unfold singleton in Hm. rewrite Hi, Ho in Hm.
  destruct (scope_fill [] (somes (in_flat c) ++ somes (out_flat c))); [|discriminate].
  destruct (input_infos (c_env c) (somes (in_flat c))); [|discriminate]. inversion Hm; subst m. cbn [m_inits] in Hin.
  destruct (initializers_only _ _ _ _ Hin) as [v [H1 H2]]. exists v. split; [apply somes_in; exact H1|exact H2].
Qed.

Lemma all_vars_in_somes : forall sl (al : list (arg nat)) v,
  args_ok sl al = true -> In v (all_vars al) -> In v (map snd (somes (flatten sl al))).
Proof.
  induction sl as [|[key kd] sl IH]; intros al v Ha Hin; destruct al as [|a al]; try discriminate; [destruct Hin|].
  cbn [args_ok snd] in Ha. apply andb_prop in Ha. destruct Ha as [_ Ha].
  unfold all_vars in Hin. cbn [flat_map] in Hin. apply in_app_or in Hin. cbn [flatten fst].
  assert (Hs : forall (x y : list (string * option nat)), somes (x ++ y) = somes x ++ somes y).
  { induction x as [|[k0 [w|]] x IHx]; intros y; cbn [app somes]; [reflexivity|rewrite IHx; reflexivity|apply IHx]. }
  rewrite Hs, map_app. apply in_or_app. destruct Hin as [Hin|Hin]; [left|right; apply IH; assumption].
  destruct a as [w|[w|]|l]; cbn [arg_vars flatten1] in *.
  - destruct Hin as [<-|[]]. left; reflexivity.
  - destruct Hin as [<-|[]]. left; reflexivity.
  - destruct Hin.
  - generalize 0. induction l as [|w l IHl]; intros i; [destruct Hin|]. cbn [enum_from somes map snd].
    destruct Hin as [<-|Hin]; [left; reflexivity|right; apply IHl; exact Hin].
Qed.

(* the round trip for the one-node model that inference sees *)
Theorem singleton_roundtrip c :
  keys_ok c = true -> call_ok c = true -> some_input_untyped c = false ->
  variadic_last (s_ins (c_sig c)) = true -> variadic_last (s_outs (c_sig c)) = true ->
  exists sc m, singleton c = SOk m /\
    bind_slots (s_ins (c_sig c)) (n_inputs (m_node m)) = Some (map (amap (nm_of sc)) (c_ins c)) /\
    bind_slots (s_outs (c_sig c)) (n_outputs (m_node m)) = Some (map (amap (nm_of sc)) (c_outs c)) /\
    (forall v w, In v (all_vars (c_ins c) ++ all_vars (c_outs c)) -> In w (all_vars (c_ins c) ++ all_vars (c_outs c)) ->
                 nm_of sc v = nm_of sc w -> v = w).
Proof.
  intros Hk Hc Hu Hvi Hvo. destruct (singleton_ok c Hk Hu) as [sc [m [Hsc [Hm [Hn _]]]]].
  unfold call_ok in Hc. apply andb_prop in Hc. destruct Hc as [Hci Hco].
  assert (Hall : forall v, In v (all_vars (c_ins c) ++ all_vars (c_outs c)) ->
                 In v (map snd (somes (in_flat c) ++ somes (out_flat c)))).
  { intros v Hv. rewrite map_app. apply in_or_app. apply in_app_or in Hv.
    destruct Hv as [Hv|Hv]; [left|right]; eapply all_vars_in_somes; eassumption. }
  exists sc, m. split; [exact Hm|]. rewrite Hn. split; [|split].
  - apply inputs_roundtrip; try assumption. intros v Hv. apply (singleton_names_nonempty c sc Hk Hsc).
    apply Hall. apply in_or_app. left. exact Hv.
  - apply outputs_roundtrip; try assumption. intros v Hv. apply (singleton_names_nonempty c sc Hk Hsc).
    apply Hall. apply in_or_app. right. exact Hv.
  - intros v w Hv Hw. apply (singleton_names_injective c sc Hk Hsc); apply Hall; assumption.
Qed.

(* dummy subgraphs carry exactly the requested argument / result types *)
Lemma dummy_infos_types p i tys : map snd (dummy_infos p i tys) = map to_onnx tys.
Proof. revert i. induction tys; intros; cbn; [reflexivity|f_equal; auto]. Qed.
Theorem dummy_subgraph_typed key args res :
  map snd (g_inputs (dummy_subgraph key args res)) = map to_onnx args /\
  map snd (g_outputs (dummy_subgraph key args res)) = map to_onnx res.
Proof. split; apply dummy_infos_types. Qed.

(* ------------------------------------------------------------------------------------------------ the outcome *)
Theorem untyped_input_no_check (E : Type) c :
  some_input_untyped c = true ->
  forall infer : smodel -> E + list (string * option oty),
    call_outcome infer c = Returned (map (fun k => (k, None)) (out_keys c)).
Proof. intros H infer. unfold call_outcome, infer_output_types. rewrite H. reflexivity. Qed.

Lemma dict_get_map {A B} (f : A -> B) (d : list (string * A)) k :
  dict_get (map (fun kt => (fst kt, f (snd kt))) d) k = option_map f (dict_get d k).
Proof. induction d as [|[k' v] d IH]; [reflexivity|]. cbn. destruct (seqb k' k); [reflexivity|exact IH]. Qed.


Theorem typed_call_outcome (E : Type) c m :
  some_input_untyped c = false -> singleton c = SOk m ->
  forall infer : smodel -> E + list (string * option oty),
    call_outcome infer c =
    match infer m with
    | inl e => Raised e
    | inr infos => match results_of infos [] with
                   | None => RaisedOther
                   | Some r => Returned (map (fun k => (k, option_map strip (dict_get r k))) (out_keys c))
                   end
    end.
Proof.
  intros Hu Hm infer. unfold call_outcome, infer_output_types. rewrite Hu, Hm. destruct (infer m) as [e|infos]; [reflexivity|].
  destruct (results_of infos []) as [r|]; cbn [option_map]; [|reflexivity]. f_equal. apply map_ext. intros k.
  rewrite (dict_get_map strip). reflexivity.
Qed.

(* ------------------------------------------------------------------------------------------------ types *)
Definition dim_normal (d : dim) : bool := match d with DSym s => negb (is_empty s) | _ => true end.
Fixpoint ty_normal (t : ty) : bool :=
  match t with
  | TTensor _ None => true
  | TTensor _ (Some sh) => forallb dim_normal sh
  | TSeq t' | TOpt t' => ty_normal t'
  end.
Lemma dim_roundtrip d : dim_normal d = true -> dim_from_onnx (dim_to_onnx d) = d.
Proof. destruct d; cbn; try reflexivity. intros H. apply negb_true_iff in H. rewrite H. reflexivity. Qed.
Theorem from_to_onnx t : ty_normal t = true -> from_onnx (to_onnx t) = Some t.
Proof.
  induction t as [e [sh|]|t IH|t IH]; cbn [ty_normal to_onnx from_onnx option_map]; intros H.
  - do 3 f_equal. rewrite map_map. rewrite forallb_forall in H. rewrite <- (map_id sh) at 2. apply map_ext_in.
    intros d Hd. apply dim_roundtrip. auto.
  - reflexivity.
  - rewrite (IH H). reflexivity.
  - rewrite (IH H). reflexivity.
Qed.
Lemma strip_dim_idem d : strip_dim (strip_dim d) = strip_dim d.
Proof. unfold strip_dim. destruct (is_invented d) eqn:E; [reflexivity|rewrite E; reflexivity]. Qed.
Theorem strip_idem t : strip (strip t) = strip t.
Proof.
  induction t as [e [sh|]|t IH|t IH]; cbn [strip option_map]; try (rewrite IH); try reflexivity.
  do 2 f_equal. rewrite map_map. apply map_ext. intros. apply strip_dim_idem.
Qed.
(* exactly the invented symbols are erased; integers, user symbols and unknown dimensions are reported as inferred *)
Theorem strip_dim_spec d :
  strip_dim d = match d with DSym s => if String.prefix unk_prefix s then DUnk else DSym s | _ => d end.
Proof. destruct d; reflexivity. Qed.
Fixpoint no_invented (t : ty) : bool :=
  match t with
  | TTensor _ None => true
  | TTensor _ (Some sh) => forallb (fun d => negb (is_invented d)) sh
  | TSeq t' | TOpt t' => no_invented t'
  end.
Theorem strip_keeps t : no_invented t = true -> strip t = t.
Proof.
  induction t as [e [sh|]|t IH|t IH]; cbn [no_invented strip option_map]; intros H; try (rewrite (IH H)); try reflexivity.
  do 2 f_equal. rewrite forallb_forall in H. rewrite <- (map_id sh) at 2. apply map_ext_in. intros d Hd.
  unfold strip_dim. specialize (H d Hd). apply negb_true_iff in H. rewrite H. reflexivity.
Qed.
Theorem strip_no_invented t : no_invented (strip t) = true.
Proof.
  induction t as [e [sh|]|t IH|t IH]; cbn [no_invented strip option_map]; try assumption; try reflexivity.
  apply forallb_forall. intros d Hd. apply in_map_iff in Hd. destruct Hd as [d0 [<- _]].
  unfold strip_dim. destruct (is_invented d0) eqn:E; [reflexivity|rewrite E; reflexivity].
Qed.

(* ------------------------------------------------------------------------------------------------ composite outcome theorem *)
Theorem reject_iff_infer_rejects (E : Type) c :
  keys_ok c = true -> some_input_untyped c = false ->
  exists m, singleton c = SOk m /\
    forall infer : smodel -> E + list (string * option oty),
      (forall e, call_outcome infer c = Raised e <-> infer m = inl e) /\
      (forall infos, infer m = inr infos ->
         call_outcome infer c =
         match results_of infos [] with
         | None => RaisedOther
         | Some r => Returned (map (fun k => (k, option_map strip (dict_get r k))) (out_keys c))
         end).
Proof.
  intros Hk Hu. destruct (singleton_ok c Hk Hu) as [sc [m [_ [Hm _]]]]. exists m. split; [exact Hm|].
  intros infer. pose proof (typed_call_outcome E c m Hu Hm infer) as H. split.
  - intros e. rewrite H. destruct (infer m) as [e'|infos].
    + split; intros H'; inversion H'; reflexivity.
    + split; [|discriminate]. destruct (results_of infos []); discriminate.
  - intros infos Hi. rewrite H, Hi. reflexivity.
Qed.

(* results_of fails only on a TypeProto that is not tensor / sequence / optional *)
Fixpoint convertible (t : oty) : bool :=
  match t with OTensor _ _ => true | OSeq t' | OOpt t' => convertible t' | OOther => false end.
Lemma from_onnx_convertible t : convertible t = true -> exists ty, from_onnx t = Some ty.
Proof.
  induction t as [e sh|t IH|t IH|]; cbn; intros H; [eexists; reflexivity| | |discriminate];
    destruct (IH H) as [ty Hty]; rewrite Hty; eexists; reflexivity.
Qed.
Lemma results_of_ok infos : forall acc,
  (forall k o, In (k, Some o) infos -> convertible o = true) -> exists r, results_of infos acc = Some r.
Proof.
  induction infos as [|[k [o|]] infos IH]; intros acc H; cbn [results_of]; [eexists; reflexivity| |].
  - destruct (from_onnx_convertible o) as [ty Hty]; [eapply H; left; reflexivity|]. rewrite Hty.
    apply IH. intros k' o' Hin. eapply H. right. exact Hin.
  - apply IH. intros k' o' Hin. eapply H. right. exact Hin.
Qed.

(* F20: a node built by a constructor names all its declared outputs, so the one-output form of an operator with
   optional outputs cannot be expressed; ONNX's rule for BatchNormalization in inference mode then rejects EVERY call *)
Definition bn_sig : sig :=
  {| s_op := "BatchNormalization"; s_domain := ""; s_version := 15%N;
     s_ins := [("X", KSingle); ("scale", KSingle); ("B", KSingle); ("input_mean", KSingle); ("input_var", KSingle)]%string;
     s_outs := [("Y", KSingle); ("running_mean", KOptional); ("running_var", KOptional)]%string;
     s_min := Some (5, 1) |}.
Definition bn_call (env : list (nat * vinfo)) (training_mode : string) : call :=
  {| c_sig := bn_sig; c_ins := [ASingle 0; ASingle 1; ASingle 2; ASingle 3; ASingle 4];
     c_outs := init_outputs (s_outs bn_sig) 0 5;
     c_attrs := [ {| a_key := "epsilon"; a_set := Some ("epsilon", AvData 1 "1e-05") |};
                  {| a_key := "momentum"; a_set := Some ("momentum", AvData 1 "0.9") |};
                  {| a_key := "training_mode"; a_set := Some ("training_mode", AvData 2 training_mode) |} ]%string;
     c_env := env |}.
(* ONNX: "This number of op outputs should be 1 when Training_mode = False" *)
Definition bn_rule {E} (infer : smodel -> E + list (string * option oty)) (e0 : E) : Prop :=
  forall m, n_op (m_node m) = "BatchNormalization"%string ->
            In ("training_mode"%string, OvData 2 "0") (n_attrs (m_node m)) ->
            List.length (n_outputs (m_node m)) <> 1 -> infer m = inl e0.
Definition typed_env (n : nat) : list (nat * vinfo) :=
  map (fun i => (i, {| vi_ty := Some (TTensor 1 (Some [DInt 2%Z; DInt 3%Z])); vi_const := None |})) (seq 0 n).
Theorem batchnorm_inference_mode_refuted :
  forall E (infer : smodel -> E + list (string * option oty)) e0, bn_rule infer e0 ->
  call_outcome infer (bn_call (typed_env 5) "0") = Raised e0.
Proof.
  intros E infer e0 Hr. unfold call_outcome, infer_output_types.
  change (some_input_untyped (bn_call (typed_env 5) "0")) with false.
  destruct (singleton (bn_call (typed_env 5) "0")) as [m| |] eqn:Hs; try (vm_compute in Hs; discriminate).
  vm_compute in Hs. inversion Hs; subst m. rewrite Hr; [reflexivity|reflexivity| |].
  - cbn. right. right. left. reflexivity.
  - cbn. discriminate.
Qed.

(* ------------------------------------------------------------------------------------------------ examples (non-vacuity) *)
Definition ex_env : list (nat * vinfo) :=
  [ (0, {| vi_ty := Some (TTensor 1 (Some [DInt 2%Z; DSym "N"; DUnk])); vi_const := None |});
    (1, {| vi_ty := Some (TTensor 1 (Some [])); vi_const := Some "f32[]:3f800000"%string |}) ].
(* clip(x, None, hi): inner omitted optional stays as "", the present last one is kept *)
Definition ex_clip (mn mx : option nat) : call :=
  {| c_sig := {| s_op := "Clip"; s_domain := ""; s_version := 13%N;
                 s_ins := [("input", KSingle); ("min", KOptional); ("max", KOptional)]%string;
                 s_outs := [("output", KSingle)]%string; s_min := Some (1, 1) |};
     c_ins := [ASingle 0; AOpt mn; AOpt mx]; c_outs := [ASingle 7]; c_attrs := []; c_env := ex_env |}.
Example clip_inner_omitted :
  keys_ok (ex_clip None (Some 1)) = true /\ call_ok (ex_clip None (Some 1)) = true /\
  some_input_untyped (ex_clip None (Some 1)) = false /\
  exists m, singleton (ex_clip None (Some 1)) = SOk m /\
    n_inputs (m_node m) = ["input"; ""; "max"]%string /\ m_inits m = [("max", "f32[]:3f800000")]%string /\
    bind_slots (s_ins (c_sig (ex_clip None (Some 1)))) (n_inputs (m_node m)) = Some [ASingle "input"; AOpt None; AOpt (Some "max")]%string.
Proof. repeat (split; [reflexivity|]). eexists. split; [vm_compute; reflexivity|]. repeat split. Qed.
Example clip_trailing_trimmed :
  exists m, singleton (ex_clip None None) = SOk m /\ n_inputs (m_node m) = ["input"]%string.
Proof. eexists. split; [vm_compute; reflexivity|reflexivity]. Qed.
(* one Var in two slots: first key wins, both value infos and both initializers are present *)
Example same_var_twice :
  exists m, singleton (ex_clip (Some 1) (Some 1)) = SOk m /\ n_inputs (m_node m) = ["input"; "min"; "min"]%string /\
    m_inits m = [("min", "f32[]:3f800000"); ("max", "f32[]:3f800000")]%string /\
    map fst (m_inputs m) = ["input"; "min"; "max"]%string.
Proof. eexists. split; [vm_compute; reflexivity|]. repeat split. Qed.
(* Loop-like: optionals before a variadic, min_input = 2: nothing may be trimmed; variadic keys v_0 .. v_11 in numeric order *)
Definition ex_loop (n : nat) : call :=
  {| c_sig := {| s_op := "Loop"; s_domain := ""; s_version := 16%N;
                 s_ins := [("M", KOptional); ("cond", KOptional); ("v_initial", KVariadic)]%string;
                 s_outs := [("v_final_and_scan_outputs", KVariadic)]%string; s_min := Some (2, 1) |};
     c_ins := [AOpt None; AOpt None; AVariadic (repeat 0 n)]; c_outs := init_outputs [("v_final_and_scan_outputs", KVariadic)]%string n 20;
     c_attrs := [ {| a_key := "body"; a_set := Some ("ignored", AvGraph [TTensor 7 (Some []); TTensor 9 (Some [])] [TTensor 9 (Some [])]) |} ]%string;
     c_env := ex_env |}.
Example loop_untrimmed_and_ordered :
  (exists m, singleton (ex_loop 0) = SOk m /\ n_inputs (m_node m) = [""; ""]%string) /\
  (exists m, singleton (ex_loop 12) = SOk m /\
     map fst (m_inputs m) = ["v_initial_0"; "v_initial_1"; "v_initial_2"; "v_initial_3"; "v_initial_4"; "v_initial_5";
                             "v_initial_6"; "v_initial_7"; "v_initial_8"; "v_initial_9"; "v_initial_10"; "v_initial_11"]%string /\
     List.length (n_outputs (m_node m)) = 12 /\ map fst (n_attrs (m_node m)) = ["body"]%string).
Proof. split; eexists; (split; [vm_compute; reflexivity|]); repeat split. Qed.
Example strip_example :
  strip (TTensor 1 (Some [DInt 2%Z; DSym "unk__3"; DSym "N"; DSym "unknown"; DUnk])) = TTensor 1 (Some [DInt 2%Z; DUnk; DSym "N"; DSym "unknown"; DUnk]).
Proof. reflexivity. Qed.

Lemma onnx_shape_opt_variadic_last sl : onnx_shape_opt sl = true -> variadic_last sl = true.
Proof.
  induction sl as [|[k kd] sl IH]; [reflexivity|]. destruct kd; cbn [onnx_shape_opt variadic_last]; try discriminate.
  - exact IH.
  - destruct sl; [reflexivity|discriminate].
Qed.
Lemma onnx_shape_variadic_last sl : onnx_shape sl = true -> variadic_last sl = true.
Proof.
  induction sl as [|[k kd] sl IH]; [reflexivity|]. destruct kd; cbn [onnx_shape].
  - exact IH.
  - apply onnx_shape_opt_variadic_last.
  - apply onnx_shape_opt_variadic_last.
Qed.

(* ------------------------------------------------------------------------------------------------ kind checks come first *)
Lemma wrong_kind_raises :
  forall (E : Type) (infer : smodel -> E + list (string * option oty)) c,
    (args_ok (s_ins (c_sig c)) (c_ins c) = false -> construct infer c = RaisedOther) /\
    (args_ok (s_ins (c_sig c)) (c_ins c) = true -> construct infer c = call_outcome infer c).
Proof. intros E infer c. unfold construct. destruct (args_ok _ _); split; intros H; try reflexivity; discriminate H. Qed.
