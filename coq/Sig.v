(* Sig.v — C11: shipped operator constructors vs. ONNX schemas.  Types + executable checker, no proofs.

   TRANSLATOR MODE.  The DATA this file talks about ([shipped] entries and [schema] entries) is regenerated from the
   current spox tree and from onnx.defs on every run by harness/c11_dump.py into SigsGen_<module>.v files, which end in
   [check_all excused table schemas = true] proved by vm_compute and lifted by the generic theorems of SigFacts.v.

   A [shipped] entry holds what reflection and behavioural observation of ONE (module, operator) pair gave:
     - the node class' op_type (name, domain, since-version) and the _OPERATORS key;
     - Inputs / Outputs dataclass fields in order (name, Single/Optional/Variadic);
     - Attributes dataclass fields (name, Attr* class name, that class' AttributeProto type, Optional[...] or not);
     - the constructor's parameters (name, keyword-only?, Var-kind of the annotation, default) and return shape;
     - OBSERVED emissions [obs]: for one argument pattern, what was passed (sentinel names per positional parameter,
       attribute values rendered canonically by the translator, independently of spox), the structure of the returned
       value, and the NodeProto that the real [Node.to_onnx] produced (op_type, domain, input names, output names,
       attributes in order rendered from the AttributeProto).
   A [schema] entry holds the same facts read from onnx.defs.

   Every sub-check returns the list of FAILURE KEYS it raises ([] = passes); [conforms] holds when every raised key is
   in the explicit list [excused] (regenerated from known_findings.json).  So a listed exception is visible DATA of the
   theorem and a new deviation still fails. *)
From Coq Require Import List String Ascii ZArith Bool.
Import ListNotations.
Open Scope string_scope.

(* ------------------------------------------------------------------------------------------------ basic data *)

Inductive kind := Single | Optional | Variadic.
Definition kind_eqb (a b : kind) : bool :=
  match a, b with Single, Single | Optional, Optional | Variadic, Variadic => true | _, _ => false end.

Record field := mkf { f_name : string; f_kind : kind }.
Definition field_eqb (a b : field) : bool := String.eqb (f_name a) (f_name b) && kind_eqb (f_kind a) (f_kind b).

Section ListEq.
  Variable A : Type.
  Variable eqb : A -> A -> bool.
  Fixpoint list_eqb (l m : list A) : bool :=
    match l, m with
    | [], [] => true
    | x :: l', y :: m' => eqb x y && list_eqb l' m'
    | _, _ => false
    end.
  Fixpoint nodupb (l : list A) : bool :=
    match l with [] => true | x :: t => negb (existsb (eqb x) t) && nodupb t end.
End ListEq.
Arguments list_eqb {A}.
Arguments nodupb {A}.

Definition mem (k : string) (l : list string) : bool := existsb (String.eqb k) l.
Definition is_nil {A} (l : list A) : bool := match l with [] => true | _ => false end.

(* attribute values, rendered canonically by the translator from an AttributeProto / from a Python value *)
Inductive aval :=
| VFloat (bits : string)                                   (* float32 bit pattern, 8 hex digits *)
| VInt (z : Z)
| VStr (s : string)                                        (* bytes, percent-escaped outside a safe ASCII set *)
| VTensor (dtype : Z) (shape : list Z) (digest : string)   (* element type, dims, sha256 of the raw little-endian bytes *)
| VGraph (tag : string)                                    (* which callable of the call built it *)
| VType (digest : string)                                  (* canonical text of the TypeProto *)
| VFloats (l : list string) | VInts (l : list Z) | VStrs (l : list string)
| VOther (ty : Z) (digest : string)                        (* any other AttributeProto type: type number + digest *)
| VBad (reason : string).                                  (* unclassifiable: equal to nothing, not even itself *)

Definition aval_eqb (a b : aval) : bool :=
  match a, b with
  | VFloat x, VFloat y => String.eqb x y
  | VInt x, VInt y => Z.eqb x y
  | VStr x, VStr y => String.eqb x y
  | VTensor d s g, VTensor d' s' g' => Z.eqb d d' && list_eqb Z.eqb s s' && String.eqb g g'
  | VGraph x, VGraph y => String.eqb x y
  | VType x, VType y => String.eqb x y
  | VFloats x, VFloats y => list_eqb String.eqb x y
  | VInts x, VInts y => list_eqb Z.eqb x y
  | VStrs x, VStrs y => list_eqb String.eqb x y
  | VOther t x, VOther t' y => Z.eqb t t' && String.eqb x y
  | _, _ => false
  end.

(* onnx.AttributeProto.AttributeType numbers *)
Definition aval_type (v : aval) : Z :=
  match v with
  | VFloat _ => 1 | VInt _ => 2 | VStr _ => 3 | VTensor _ _ _ => 4 | VGraph _ => 5
  | VFloats _ => 6 | VInts _ => 7 | VStrs _ => 8 | VType _ => 13 | VOther t _ => t | VBad _ => (-1)
  end%Z.

(* spox attribute classes (src/spox/_attributes.py) and the AttributeProto type each must stand for *)
Definition class_type (c : string) : Z :=
  (if String.eqb c "AttrFloat32" then 1 else if String.eqb c "AttrInt64" then 2 else if String.eqb c "AttrString" then 3
   else if String.eqb c "AttrTensor" then 4 else if String.eqb c "AttrGraph" then 5 else if String.eqb c "AttrFloat32s" then 6
   else if String.eqb c "AttrInt64s" then 7 else if String.eqb c "AttrStrings" then 8 else if String.eqb c "AttrTensors" then 9
   else if String.eqb c "AttrType" then 13 else if String.eqb c "AttrDtype" then 2 else (-2))%Z.

Definition pair_eqb (a b : string * aval) : bool := String.eqb (fst a) (fst b) && aval_eqb (snd a) (snd b).

Fixpoint assoc {B} (n : string) (l : list (string * B)) : option B :=
  match l with [] => None | (k, v) :: t => if String.eqb k n then Some v else assoc n t end.

(* ------------------------------------------------------------------------------------------------ entries *)

Record attr_field := mka { a_name : string; a_class : string; a_ptype : Z; a_opt : bool }.

Inductive pdefault :=
| NoDefault                 (* required parameter *)
| DefNone                   (* = None *)
| DefEmpty                  (* = () *)
| DefVal (v : aval)         (* a concrete value, rendered as the attribute it would become *)
| DefBad (r : string).

Record param := mkp { p_name : string; p_kwonly : bool; p_kind : option kind; p_ann : string; p_default : pdefault }.

Inductive retshape := RetVar | RetTuple (n : nat) | RetSeq | RetBad (r : string).

Inductive arg := ArgS (n : string) | ArgO (o : option string) | ArgV (l : list string).

Record obs := mko {
  o_label : string;                    (* which argument pattern this is (for reports) *)
  o_raised : string;                   (* "" or the exception class that prevented the observation *)
  o_classok : bool;                    (* the node built is an instance of exactly _OPERATORS[key] *)
  o_args : list arg;                   (* what was passed for positional parameter i (sentinel Var names) *)
  o_given : list (string * aval);      (* keyword parameters passed explicitly, value rendered by the translator *)
  o_ret : list arg;                    (* structure of the returned value, Vars named by position *)
  o_optype : string; o_domain : string;
  o_in : list string; o_out : list string;
  o_attr : list (string * aval) }.     (* the NodeProto from the real Node.to_onnx *)

Record shipped := mke {
  e_key : string;                                      (* key in _OPERATORS / _CONSTRUCTORS *)
  e_name : string; e_domain : string; e_since : Z;     (* the class' op_type *)
  e_inputs : list field; e_outputs : list field; e_attrs : list attr_field;
  e_params : list param; e_ret : retshape;
  e_obs : list obs;
  e_bad : list string }.                               (* anything the translator could not classify *)

Record sattr := mks { sa_name : string; sa_type : Z; sa_required : bool; sa_default : option aval }.

Record schema := mksc {
  s_name : string; s_domain : string; s_since : Z; s_deprecated : bool;
  s_inputs : list field; s_outputs : list field; s_min_in : nat; s_min_out : nat;
  s_attrs : list sattr; s_bad : list string }.

Definition find_schema (n : string) (l : list schema) : option schema := find (fun s => String.eqb (s_name s) n) l.
Definition find_sattr (n : string) (l : list sattr) : option sattr := find (fun b => String.eqb (sa_name b) n) l.
Definition find_param (n : string) (l : list param) : option param := find (fun p => String.eqb (p_name p) n) l.
Definition kinds (l : list field) : list kind := map f_kind l.

(* ------------------------------------------------------------------------------------------------ positional binding *)

Definition nonempty (s : string) : bool := negb (String.eqb s "").

(* an argument pattern fits a signature: kinds agree slot by slot, names are non-empty, a variadic slot is last *)
Fixpoint fitsb (sig : list kind) (args : list arg) : bool :=
  match sig, args with
  | [], [] => true
  | Single :: sig', ArgS n :: args' => nonempty n && fitsb sig' args'
  | Optional :: sig', ArgO o :: args' => (match o with Some n => nonempty n | None => true end) && fitsb sig' args'
  | Variadic :: sig', ArgV l :: args' => forallb nonempty l && is_nil sig' && fitsb sig' args'
  | _, _ => false
  end.

Definition arg_names (a : arg) : list string :=
  match a with ArgS n => [n] | ArgO (Some n) => [n] | ArgO None => [""] | ArgV l => l end.
Definition flat (args : list arg) : list string := flat_map arg_names args.

(* drop trailing empty names, but never below [m] names (spox: Node.to_onnx with min_input / min_output) *)
Fixpoint trim (m : nat) (l : list string) : list string :=
  match l with
  | [] => []
  | x :: t => match m with
              | S m' => x :: trim m' t
              | O => match trim O t with
                     | [] => if String.eqb x "" then [] else [x]
                     | t' => x :: t'
                     end
              end
  end.

(* the emission the property prescribes: argument i at position i, inner omitted optionals "", trailing ones dropped *)
Definition emit (m : nat) (args : list arg) : list string := trim m (flat args).

(* ONNX's positional binding of a NodeProto's name list to the formal parameters of a schema *)
Fixpoint bind_slots (sig : list kind) (names : list string) : option (list arg) :=
  match sig with
  | [] => match names with [] => Some [] | _ => None end
  | Single :: sig' =>
      match names with
      | n :: t => if nonempty n then option_map (cons (ArgS n)) (bind_slots sig' t) else None
      | [] => None
      end
  | Optional :: sig' =>
      match names with
      | n :: t => option_map (cons (ArgO (if nonempty n then Some n else None))) (bind_slots sig' t)
      | [] => option_map (cons (ArgO None)) (bind_slots sig' [])
      end
  | Variadic :: sig' =>
      match sig' with
      | [] => if forallb nonempty names then Some [ArgV names] else None
      | _ => None
      end
  end.

(* ONNX's shape of a formal parameter list as DESIGN states it: optionals form a suffix of the non-variadic slots,
   at most one variadic slot, last *)
Fixpoint wellshaped_from (seen_opt : bool) (sig : list kind) : bool :=
  match sig with
  | [] => true
  | Single :: t => negb seen_opt && wellshaped_from false t
  | Optional :: t => wellshaped_from true t
  | Variadic :: t => is_nil t
  end.
Definition wellshaped (sig : list kind) : bool := wellshaped_from false sig.

(* ------------------------------------------------------------------------------------------------ attributes *)

(* emission of attributes: a filter-map over the attribute fields in order, each handled on its own *)
Definition emit_attrs (names : list string) (f : string -> option aval) : list (string * aval) :=
  flat_map (fun n => match f n with Some v => [(n, v)] | None => [] end) names.

Definition ctor_default (ps : list param) (n : string) : option aval :=
  match find_param n ps with
  | Some p => match p_default p with DefVal v => Some v | _ => None end
  | None => None
  end.

(* the value attribute [n] has in a call: the one given, else the constructor's default *)
Definition eff_of (d : string -> option aval) (given : list (string * aval)) (n : string) : option aval :=
  match assoc n given with Some v => Some v | None => d n end.

Definition restrict (n : string) (g : list (string * aval)) : list (string * aval) :=
  filter (fun kv => String.eqb (fst kv) n) g.

(* ------------------------------------------------------------------------------------------------ sub-checks *)

Definition guard (b : bool) (k : string) : list string := if b then [] else [k].

Definition has_default (b : sattr) : bool := match sa_default b with Some _ => true | None => false end.
Definition is_nodefault (d : pdefault) : bool := match d with NoDefault => true | _ => false end.

Definition name_ok (e : shipped) (s : schema) : bool := String.eqb (e_key e) (e_name e) && String.eqb (e_name e) (s_name s).
Definition domain_ok (e : shipped) (s : schema) : bool := String.eqb (e_domain e) (s_domain s).
Definition since_ok (e : shipped) (s : schema) : bool := Z.eqb (e_since e) (s_since s).
Definition live_ok (e : shipped) (s : schema) : bool := negb (s_deprecated s).
Definition classified_ok (e : shipped) (s : schema) : bool := is_nil (e_bad e) && is_nil (s_bad s).
Definition inputs_ok (e : shipped) (s : schema) : bool := list_eqb field_eqb (e_inputs e) (s_inputs s).
Definition outputs_ok (e : shipped) (s : schema) : bool := list_eqb field_eqb (e_outputs e) (s_outputs s).

(* one shipped attribute field against the schema *)
Definition attr_ok (e : shipped) (s : schema) (a : attr_field) : bool :=
  match find_sattr (a_name a) (s_attrs s) with
  | Some b =>
      Z.eqb (class_type (a_class a)) (sa_type b) && Z.eqb (a_ptype a) (sa_type b)
      && Bool.eqb (a_opt a) (negb (sa_required b || has_default b))
      && match find_param (a_name a) (e_params e) with
         | Some p => p_kwonly p && Bool.eqb (is_nodefault (p_default p)) (sa_required b)
         | None => false
         end
  | None => false
  end.
Definition sattr_ok (e : shipped) (b : sattr) : bool := existsb (fun a => String.eqb (a_name a) (sa_name b)) (e_attrs e).

(* the constructor's default against the schema's *)
Definition default_ok (e : shipped) (b : sattr) : bool :=
  match find_param (sa_name b) (e_params e) with
  | None => true                                   (* no such parameter: reported by sattr_ok / attr_ok *)
  | Some p =>
      match sa_default b, p_default p with
      | Some v, DefVal w => aval_eqb w v
      | None, NoDefault => true
      | None, DefNone => true
      | _, _ => false
      end
  end.

(* constructor signature: positional parameters are the schema's inputs in order (kind from the annotation, None as
   default of optionals, () at most for the variadic); keyword-only parameters are the attributes, plus at most one
   extra int parameter giving the number of variadic outputs; the return annotation has the outputs' shape *)
Definition pos_params (ps : list param) : list param := filter (fun p => negb (p_kwonly p)) ps.
Definition kw_params (ps : list param) : list param := filter p_kwonly ps.
Definition pos_param_ok (p : param) (f : field) : bool :=
  String.eqb (p_name p) (f_name f)
  && match p_kind p with Some k => kind_eqb k (f_kind f) | None => false end
  && match f_kind f, p_default p with
     | Single, NoDefault => true
     | Optional, DefNone => true
     | Variadic, NoDefault => true
     | Variadic, DefEmpty => true
     | _, _ => false
     end.
Fixpoint pos_params_ok (ps : list param) (fs : list field) : bool :=
  match ps, fs with
  | [], [] => true
  | p :: ps', f :: fs' => pos_param_ok p f && pos_params_ok ps' fs'
  | _, _ => false
  end.
Definition last_is_variadic (fs : list field) : bool :=
  match rev fs with f :: _ => kind_eqb (f_kind f) Variadic | [] => false end.
Definition extra_kw (e : shipped) : list param :=
  filter (fun p => negb (existsb (fun a => String.eqb (a_name a) (p_name p)) (e_attrs e))) (kw_params (e_params e)).
Definition extra_kw_ok (e : shipped) (s : schema) : bool :=
  match extra_kw e with
  | [] => true
  | [p] => last_is_variadic (s_outputs s) && String.eqb (p_ann p) "int" && is_nodefault (p_default p)
  | _ => false
  end.
Definition ret_ok (r : retshape) (outs : list kind) : bool :=
  match r, outs with
  | RetVar, [Single] | RetVar, [Optional] => true
  | RetSeq, [Variadic] => true
  | RetTuple n, _ => Nat.eqb n (List.length outs) && Nat.leb 2 n && forallb (fun k => negb (kind_eqb k Variadic)) outs
  | _, _ => false
  end.
Definition signature_ok (e : shipped) (s : schema) : bool :=
  pos_params_ok (pos_params (e_params e)) (s_inputs s)
  && nodupb String.eqb (map p_name (e_params e))
  && extra_kw_ok e s
  && ret_ok (e_ret e) (kinds (s_outputs s)).

(* one observation *)
Definition obs_ident_ok (s : schema) (o : obs) : bool :=
  String.eqb (o_optype o) (s_name s) && String.eqb (o_domain o) (s_domain s) && o_classok o.
Definition obs_in_ok (s : schema) (o : obs) : bool :=
  fitsb (kinds (s_inputs s)) (o_args o) && nodupb String.eqb (filter nonempty (flat (o_args o)))
  && list_eqb String.eqb (o_in o) (emit (s_min_in s) (o_args o)).
Definition obs_out_ok (s : schema) (o : obs) : bool :=
  fitsb (kinds (s_outputs s)) (o_ret o) && nodupb String.eqb (filter nonempty (flat (o_ret o)))
  && list_eqb String.eqb (o_out o) (emit (s_min_out s) (o_ret o)).
Definition attr_names (e : shipped) : list string := map a_name (e_attrs e).
Definition eff (e : shipped) (o : obs) : string -> option aval := eff_of (ctor_default (e_params e)) (o_given o).
Definition emitted_typed (s : schema) (nv : string * aval) : bool :=
  match find_sattr (fst nv) (s_attrs s) with Some b => Z.eqb (aval_type (snd nv)) (sa_type b) | None => false end.
Definition obs_attr_ok (e : shipped) (s : schema) (o : obs) : bool :=
  list_eqb pair_eqb (o_attr o) (emit_attrs (attr_names e) (eff e o))
  && forallb (emitted_typed s) (o_attr o)
  && nodupb String.eqb (map fst (o_given o))
  && forallb (fun kv => existsb (fun p => p_kwonly p && String.eqb (p_name p) (fst kv)) (e_params e)) (o_given o).

Definition obs_fail (e : shipped) (s : schema) (o : obs) : list string :=
  if nonempty (o_raised o) then ["emission/raised-" ++ o_raised o]
  else guard (obs_ident_ok s o) "emission/op_type" ++ guard (obs_in_ok s o) "emission/inputs"
       ++ guard (obs_out_ok s o) "emission/outputs" ++ guard (obs_attr_ok e s o) "emission/attributes".

(* coverage of argument patterns: every subset of the schema's optional inputs; variadic lengths 0..3; every
   non-required attribute absent / alone; all attributes together *)
Definition arg_given (a : arg) : bool := match a with ArgO None => false | _ => true end.
Definition mask_of (o : obs) : list bool := map arg_given (o_args o).
Fixpoint masks (sig : list kind) : list (list bool) :=
  match sig with
  | [] => [[]]
  | Optional :: t => map (cons true) (masks t) ++ map (cons false) (masks t)
  | _ :: t => map (cons true) (masks t)
  end.
Definition var_len (o : obs) : option nat :=
  match rev (o_args o) with ArgV l :: _ => Some (List.length l) | _ => None end.
Definition opt_nat_eqb (a b : option nat) : bool :=
  match a, b with Some x, Some y => Nat.eqb x y | None, None => true | _, _ => false end.
Definition optional_attrs (e : shipped) : list string :=
  map p_name (filter (fun p => negb (is_nodefault (p_default p))) (kw_params (e_params e))).
Definition given_optional (e : shipped) (o : obs) : list string :=
  filter (fun n => mem n (optional_attrs e)) (map fst (o_given o)).
Definition coverage_ok (e : shipped) (s : schema) : bool :=
  forallb (fun m => existsb (fun o => list_eqb Bool.eqb (mask_of o) m) (e_obs e)) (masks (kinds (s_inputs s)))
  && (negb (last_is_variadic (s_inputs s))
      || forallb (fun n => existsb (fun o => opt_nat_eqb (var_len o) (Some n)) (e_obs e)) [0; 1; 2; 3]%nat)
  && forallb (fun a => existsb (fun o => list_eqb String.eqb (given_optional e o) [a]) (e_obs e)) (optional_attrs e)
  && existsb (fun o => is_nil (given_optional e o)) (e_obs e)
  && existsb (fun o => list_eqb String.eqb (given_optional e o) (optional_attrs e)) (e_obs e).

(* all failure keys of one entry against its schema *)
Definition all_failures (e : shipped) (s : schema) : list string :=
  guard (name_ok e s) "name" ++ guard (domain_ok e s) "domain" ++ guard (since_ok e s) "since-version"
  ++ guard (classified_ok e s) "unclassifiable" ++ guard (live_ok e s) "deprecated"
  ++ guard (inputs_ok e s) "inputs" ++ guard (outputs_ok e s) "outputs"
  ++ flat_map (fun a => guard (attr_ok e s a) ("attributes/" ++ a_name a)) (e_attrs e)
  ++ flat_map (fun b => guard (sattr_ok e b) ("attributes/" ++ sa_name b)) (s_attrs s)
  ++ flat_map (fun b => guard (default_ok e b) ("defaults/" ++ sa_name b)) (s_attrs s)
  ++ guard (signature_ok e s) "signature"
  ++ flat_map (obs_fail e s) (e_obs e)
  ++ guard (coverage_ok e s) "coverage".

Definition key (e : shipped) (c : string) : string := e_key e ++ "/" ++ c.

Definition entry_failures (schemas : list schema) (e : shipped) : list string :=
  match find_schema (e_key e) schemas with
  | Some s => map (key e) (all_failures e s)
  | None => [key e "schema-missing"]
  end.

Definition conforms_in (excused : list string) (schemas : list schema) (e : shipped) : bool :=
  forallb (fun k => mem k excused) (entry_failures schemas e).

(* completeness: every non-deprecated schema in force at the module's version has an entry; tables have no duplicates *)
Definition complete_failures (table : list shipped) (schemas : list schema) : list string :=
  flat_map (fun s => guard (s_deprecated s || existsb (fun e => String.eqb (e_key e) (s_name s)) table)
                           (s_name s ++ "/completeness")) schemas
  ++ guard (nodupb String.eqb (map e_key table)) "module/duplicate-entries"
  ++ guard (nodupb String.eqb (map s_name schemas)) "module/duplicate-schemas".

Definition failing_keys (table : list shipped) (schemas : list schema) : list string :=
  flat_map (entry_failures schemas) table ++ complete_failures table schemas.

Definition check_all (excused : list string) (table : list shipped) (schemas : list schema) : bool :=
  forallb (conforms_in excused schemas) table
  && forallb (fun k => mem k excused) (complete_failures table schemas).

(* for reports: (entry key, observation label, failure keys) of every failing observation *)
Definition failing_obs (table : list shipped) (schemas : list schema) : list (string * string * list string) :=
  flat_map (fun e => match find_schema (e_key e) schemas with
                     | Some s => flat_map (fun o => match obs_fail e s o with [] => [] | l => [(e_key e, o_label o, l)] end) (e_obs e)
                     | None => []
                     end) table.

(* ------------------------------------------------------------------------------------------------ the property, declaratively
   [Conforms excused schemas e]: the statement of C11 for one shipped entry, each clause spelled out.  A clause is
   either established or its failure key is a member of [excused] ([Exc]).  With [excused = []] this is the property
   itself.  SigFacts.v proves  check_all excused table schemas = true -> forall e, In e table -> Conforms ... e. *)

Definition Exc (x : list string) (k : string) (P : Prop) : Prop := In k x \/ P.

Definition AttrConforms (e : shipped) (s : schema) (a : attr_field) : Prop :=
  exists b, find_sattr (a_name a) (s_attrs s) = Some b                        (* the schema has an attribute of that name *)
    /\ class_type (a_class a) = sa_type b /\ a_ptype a = sa_type b            (* of the same kind *)
    /\ a_opt a = negb (sa_required b || has_default b)                        (* the field may be unset iff optional without default *)
    /\ exists p, find_param (a_name a) (e_params e) = Some p /\ p_kwonly p = true
                 /\ is_nodefault (p_default p) = sa_required b.               (* required by the constructor iff required by the schema *)

Definition DefaultConforms (e : shipped) (b : sattr) : Prop :=
  forall p, find_param (sa_name b) (e_params e) = Some p ->
    match sa_default b with
    | Some v => p_default p = DefVal v                                        (* constructor default = schema default *)
    | None => p_default p = NoDefault \/ p_default p = DefNone                (* no invented default *)
    end.

Definition PosParamConforms (p : param) (f : field) : Prop :=
  p_name p = f_name f /\ p_kind p = Some (f_kind f)
  /\ match f_kind f with
     | Single => p_default p = NoDefault
     | Optional => p_default p = DefNone
     | Variadic => p_default p = NoDefault \/ p_default p = DefEmpty
     end.

Definition SignatureConforms (e : shipped) (s : schema) : Prop :=
  Forall2 PosParamConforms (pos_params (e_params e)) (s_inputs s)             (* positional parameter i is schema input i *)
  /\ NoDup (map p_name (e_params e))
  /\ (extra_kw e = [] \/ exists p, extra_kw e = [p] /\ last_is_variadic (s_outputs s) = true
                                   /\ p_ann p = "int" /\ p_default p = NoDefault)
  /\ ret_ok (e_ret e) (kinds (s_outputs s)) = true.

Definition ObsIdent (s : schema) (o : obs) : Prop :=
  o_optype o = s_name s /\ o_domain o = s_domain s /\ o_classok o = true.

(* the names emitted for an argument pattern: exactly [emit], and ONNX's positional binding of them to the schema's
   formal parameters gives back argument i in slot i *)
Definition ObsSlots (sig : list kind) (m : nat) (args : list arg) (names : list string) : Prop :=
  fitsb sig args = true /\ NoDup (filter nonempty (flat args)) /\ names = emit m args /\ bind_slots sig names = Some args.

Definition ObsAttr (e : shipped) (s : schema) (o : obs) : Prop :=
  o_attr o = emit_attrs (attr_names e) (eff e o)                              (* given value, else constructor default, under the field's name *)
  /\ (forall n v, In (n, v) (o_attr o) -> exists b, find_sattr n (s_attrs s) = Some b /\ aval_type v = sa_type b)
  /\ NoDup (map fst (o_given o))
  /\ (forall n v, In (n, v) (o_given o) -> exists p, In p (e_params e) /\ p_kwonly p = true /\ p_name p = n).

Definition ObsConforms (x : list string) (e : shipped) (s : schema) (o : obs) : Prop :=
  (o_raised o <> "" /\ In (key e ("emission/raised-" ++ o_raised o)) x)
  \/ (o_raised o = ""
      /\ Exc x (key e "emission/op_type") (ObsIdent s o)
      /\ Exc x (key e "emission/inputs") (ObsSlots (kinds (s_inputs s)) (s_min_in s) (o_args o) (o_in o))
      /\ Exc x (key e "emission/outputs") (ObsSlots (kinds (s_outputs s)) (s_min_out s) (o_ret o) (o_out o))
      /\ Exc x (key e "emission/attributes") (ObsAttr e s o)).

Definition Coverage (e : shipped) (s : schema) : Prop :=
  (forall m, In m (masks (kinds (s_inputs s))) -> exists o, In o (e_obs e) /\ mask_of o = m)
  /\ (last_is_variadic (s_inputs s) = true -> forall n, (n <= 3)%nat -> exists o, In o (e_obs e) /\ var_len o = Some n)
  /\ (forall a, In a (optional_attrs e) -> exists o, In o (e_obs e) /\ given_optional e o = [a])
  /\ (exists o, In o (e_obs e) /\ given_optional e o = [])
  /\ (exists o, In o (e_obs e) /\ given_optional e o = optional_attrs e).

Definition ConformsS (x : list string) (e : shipped) (s : schema) : Prop :=
  Exc x (key e "name") (e_key e = e_name e /\ e_name e = s_name s)
  /\ Exc x (key e "domain") (e_domain e = s_domain s)
  /\ Exc x (key e "since-version") (e_since e = s_since s)
  /\ Exc x (key e "unclassifiable") (e_bad e = [] /\ s_bad s = [])
  /\ Exc x (key e "deprecated") (s_deprecated s = false)      (* the schema in force is not one ONNX has withdrawn *)
  /\ Exc x (key e "inputs") (e_inputs e = s_inputs s)
  /\ Exc x (key e "outputs") (e_outputs e = s_outputs s)
  /\ (forall a, In a (e_attrs e) -> Exc x (key e ("attributes/" ++ a_name a)) (AttrConforms e s a))
  /\ (forall b, In b (s_attrs s) ->
        Exc x (key e ("attributes/" ++ sa_name b)) (exists a, In a (e_attrs e) /\ a_name a = sa_name b))
  /\ (forall b, In b (s_attrs s) -> Exc x (key e ("defaults/" ++ sa_name b)) (DefaultConforms e b))
  /\ Exc x (key e "signature") (SignatureConforms e s)
  /\ (forall o, In o (e_obs e) -> ObsConforms x e s o)
  /\ Exc x (key e "coverage") (Coverage e s).

Definition Conforms (x : list string) (schemas : list schema) (e : shipped) : Prop :=
  match find_schema (e_key e) schemas with
  | Some s => s_name s = e_key e /\ In s schemas /\ ConformsS x e s
  | None => In (key e "schema-missing") x
  end.
