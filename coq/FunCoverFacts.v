(* FunCoverFacts.v — the opset imports of every FUNCTION DEFINITION of a built model cover the function's body, BY CONSTRUCTION (no
   validator): a function's body is built by its own Builder, whose recorded requirements cover every node of the body (CoverFacts); the
   definition imports the maximum per domain of those requirements and the model's own imports.  Holds for functions called from the main
   graph, from control-flow bodies and from other functions, at any depth (induction on the nesting of function builds).  (C14 / C09) *)
From Coq Require Import List String NArith Arith Bool Lia.
From Spox Require Import Base IR Show Build Sem Plan Named Validate BuildFacts CompilePres ScopeFacts AdaptFacts ReqFacts CoverFacts FuncFacts.
Import ListNotations.
Open Scope list_scope.

Definition FOK (p : prog) (f : fdesc) : Prop := Cv p (flat_map srcs_node (fd_body f)) (fd_req f).

Section FunCover.
Variables (p : prog) (un : names) (args_of : nat -> list var) (own_of : nat -> list nref)
          (fbuild : nat -> nat -> res (list mnode * req * list fdesc)).
Hypothesis Hfb : forall n body bn brq bfs, fbuild n body = inl (bn, brq, bfs) -> Cv p (flat_map srcs_node bn) brq /\ Forall (FOK p) bfs.

Definition accFO (acc : list mnode * scope * req * list fdesc * list fdesc) : Prop :=
  let '(ms, s, rq, fs, sfs) := acc in Forall (FOK p) fs /\ Forall (FOK p) sfs.

Section Step.
Variable rec : scope -> nat -> String.string -> option bool -> res (mgraph * scope * req * list fdesc).
Hypothesis Hrec : forall s g pre vi mg s' rq fs, rec s g pre vi = inl (mg, s', rq, fs) -> Forall (FOK p) fs.

Lemma attr_fold_FO nm : forall l a0 al sz rqz fz,
  foldM (fun (acc : list (String.string * option mgraph) * scope * req * list fdesc) (ka : String.string * attrv) =>
           let '(l, s, rq, fs) := acc in
           match snd ka with
           | AVal _ => ret ((l ++ [(fst ka, None)])%list, s, rq, fs)
           | AGraph sub =>
             do r <- rec s sub (nm ++ "_" ++ fst ka ++ "__")%string (Some false) ;;
             let '(mg, s', rq', fs') := r in
             ret ((l ++ [(fst ka, Some mg)])%list, s', union req_eqb rq rq', (fs ++ fs')%list)
           end) l a0 = inl (al, sz, rqz, fz) ->
  Forall (FOK p) (snd a0) -> Forall (FOK p) fz.
Proof. induction l as [|ka t IH]; intros [[[l0 sa] rqa] fsa] al sz rqz fz H Hc; cbn [foldM] in H; cbn [snd] in Hc.
  - inversion H; subst. exact Hc.
  - apply bind_ok in H. destruct H as [[[[l1 s1] rq1] fs1] [Hk H]]. eapply IH; [exact H|]. cbn [snd].
    destruct (snd ka) as [sub|x]; [|inversion Hk; subst; exact Hc].
    apply bind_ok in Hk. destruct Hk as [[[[mg0 sb] rqb] fsb] [Hcm Hk]]. inversion Hk; subst.
    apply Forall_app. split; [exact Hc|exact (Hrec _ _ _ _ _ _ _ _ Hcm)]. Qed.

Lemma step_FO prefix acc u acc' : compile_step p un fbuild rec prefix acc u = inl acc' -> accFO acc -> accFO acc'.
Proof.
  destruct acc as [[[[ms s] rq] fs] sfs]. destruct acc' as [[[[ms' s'] rq'] fs'] sfs']. intros Hu [Hf Hsf]. unfold accFO. unfold compile_step in Hu.
  destruct (is_arg p u) eqn:Ea; [inversion Hu; subst; split; assumption|].
  destruct u as [n|g'].
  - apply bind_ok in Hu. destruct Hu as [[rqm fsm] [Hmeta Hu]].
    assert (Hfm : Forall (FOK p) fsm).
    { destruct (kind (getn p n)) eqn:Hk; try (inversion Hmeta; subst; exact Hf).
      apply bind_ok in Hmeta. destruct Hmeta as [[[bn brq] bfs] [Hb Hmeta]]. inversion Hmeta; subst.
      destruct (Hfb _ _ _ _ _ Hb) as [Hc Hbf]. apply Forall_app. split; [exact Hf|]. constructor; [exact Hc|exact Hbf]. }
    apply bind_ok in Hu. destruct Hu as [s2 [_ Hu]].
    destruct (kind (getn p n)) as [| | |om imp|body fi fo fa] eqn:Hk.
    + inversion Hu; subst. split; assumption.
    + apply bind_ok in Hu. destruct Hu as [o [_ Hu]]. inversion Hu; subst. split; assumption.
    + apply bind_ok in Hu. destruct Hu as [nm [_ Hu]]. apply bind_ok in Hu. destruct Hu as [inn [_ Hu]].
      apply bind_ok in Hu. destruct Hu as [outn [_ Hu]]. apply bind_ok in Hu. destruct Hu as [[[[al s3] rq3] sfs3] [Hsg Hu]].
      inversion Hu; subst. split; [exact Hfm|]. exact (attr_fold_FO nm _ ([], s2, rqm, sfs) _ _ _ _ Hsg Hsf).
    + apply bind_ok in Hu. destruct Hu as [nm [_ Hu]]. destruct om as [gi gin body go_ vi].
      apply bind_ok in Hu. destruct Hu as [[ri sri] [_ Hu]]. apply bind_ok in Hu. destruct Hu as [[rb srb] [_ Hu]].
      apply bind_ok in Hu. destruct Hu as [[ro sro] [_ Hu]]. apply bind_ok in Hu. destruct Hu as [[rvi srvi] [_ Hu]].
      apply bind_ok in Hu. destruct Hu as [ids [_ Hu]]. apply bind_ok in Hu. destruct Hu as [inn [_ Hu]].
      apply bind_ok in Hu. destruct Hu as [outn [_ Hu]]. inversion Hu; subst. split; assumption.
    + apply bind_ok in Hu. destruct Hu as [nm [_ Hu]]. apply bind_ok in Hu. destruct Hu as [inn [_ Hu]].
      apply bind_ok in Hu. destruct Hu as [outn [_ Hu]]. apply bind_ok in Hu. destruct Hu as [[[[al s3] rq3] sfs3] [Hsg Hu]].
      inversion Hu; subst. split; [exact Hfm|]. exact (attr_fold_FO nm _ ([], s2, rqm, sfs) _ _ _ _ Hsg Hsf).
  - apply bind_ok in Hu. destruct Hu as [s2 [_ Hu]].
    apply bind_ok in Hu. destruct Hu as [nm [_ Hu]]. apply bind_ok in Hu. destruct Hu as [i [_ Hu]].
    apply bind_ok in Hu. destruct Hu as [o [_ Hu]]. inversion Hu; subst. split; assumption.
Qed.
End Step.

Theorem compile_FO : forall fuel s g prefix vi mg s' rq fs,
  compile p un args_of own_of fbuild fuel s g prefix vi = inl (mg, s', rq, fs) -> Forall (FOK p) fs.
Proof.
  induction fuel as [|f IH]; intros s g prefix vi mg s' rq fs H; [discriminate H|]. cbn [Build.compile] in H.
  apply bind_ok in H. destruct H as [s1 [_ H]].
  apply bind_ok in H. destruct H as [[[[[ms s3] rq3] fs0] sfs] [H2 H]].
  assert (Hc3 : accFO (ms, s3, rq3, fs0, sfs)).
  { assert (Hi : accFO ([], s1, [], [], [])) by (split; constructor). revert H2 Hi. apply (CompilePres.foldM_inv accFO). intros acc u acc' Hs. eapply step_FO; [|exact Hs]. exact IH. }
  destruct (Nat.eqb (List.length (gres (getg p g))) 0); [discriminate H|].
  apply bind_ok in H. destruct H as [ai [_ H]]. apply bind_ok in H. destruct H as [ro [_ H]]. inversion H; subst.
  destruct Hc3 as [A B]. apply Forall_app. split; assumption.
Qed.
End FunCover.

(* functions build their bodies with their own Builder: induction on the nesting of function builds *)
Theorem build_main_FO : forall ffuel vi p un main b,
  build_main_gen vi ffuel p un main = inl b -> Forall (FOK p) (b_funs b).
Proof. induction ffuel as [|ff IH]; intros vi p un main b H; [discriminate|]. cbn [build_main_gen] in H.
  apply bind_ok in H. destruct H as [d [_ H]]. apply bind_ok in H. destruct H as [[[[mg s] rq] fs] [Hc H]].
  inversion H; subst. cbn [b_funs]. eapply compile_FO; [|exact Hc].
  intros n body bn brq bfs Hb. cbn beta in Hb. apply bind_ok in Hb. destruct Hb as [b0 [Hb0 Hb]]. inversion Hb; subst.
  split; [|exact (IH _ _ _ _ _ Hb0)]. pose proof (build_main_covers _ _ _ _ _ _ Hb0) as Hcv.
  destruct (b_graph b0) as [gi body0 go_]. exact Hcv. Qed.

(* every definition returned by to_model is the rendering of a function met during the build *)
Lemma fold_from imports : forall l acc r, foldM (fstep imports) l acc = inl r ->
  forall d, In d r -> In d acc \/ exists f, In f l /\ d = function_proto imports f.
Proof. induction l as [|f t IH]; intros acc r H d Hd; cbn [foldM] in H.
  - inversion H; subst. now left.
  - apply bind_ok in H. destruct H as [acc' [Hs Ht]]. destruct (IH _ _ Ht d Hd) as [Hin|[g [Hg E]]]; [|right; exists g; split; [now right|exact E]].
    unfold fstep in Hs. destruct (find (fkey_eqb (function_proto imports f)) acc) as [old|].
    + destruct (String.eqb _ _ && String.eqb _ _)%bool; [|discriminate]. inversion Hs; subst. now left.
    + inversion Hs; subst. apply in_app_or in Hin. destruct Hin as [Hin|[<-|[]]]; [now left|right; exists f; split; [now left|reflexivity]]. Qed.

Theorem build_public_function_imports_cover p r m inputs outputs :
  build_public p r = inl m -> all_vars (r_inputs r) = Some inputs -> all_vars (r_outputs r) = Some outputs ->
  exists args, forall d, In d (mfunctions m) -> forall u, In u (flat_map srcs_node (f_body d)) ->
    forall dv, In dv (node_req (with_main p (Some args) outputs) u) ->
      exists v, lookup String.eqb (fold_domain (fst dv)) (f_imports d) = Some v /\ snd dv <= v.
Proof.
  unfold build_public. intros H Hi Ho. rewrite Hi, Ho in H.
  destruct (negb _); [discriminate|]. destruct outputs as [|o os]; [discriminate|].
  apply bind_ok in H. destruct H as [args [_ H]]. apply bind_ok in H. destruct H as [b [Hb H]].
  apply bind_ok in H. destruct H as [m' [Hm H]].
  destruct (mmain m') as [gi body0 go_] eqn:Eg. destruct (forallb _ gi); [|discriminate]. inversion H; subst m'.
  exists args. intros d Hd u Hu dv Hdv. unfold build_main in Hb. pose proof (build_main_FO _ _ _ _ _ _ Hb) as HF.
  unfold to_model in Hm. apply bind_ok in Hm. destruct Hm as [funs [Hf Hm]].
  destruct (struct_check (b_graph b)); [|discriminate]. cbn in Hm. destruct (forallb _ funs); [|discriminate]. inversion Hm; subst m. cbn [mfunctions] in Hd.
  destruct (fold_from _ _ _ _ Hf d Hd) as [[]|[f [Hfin ->]]]. cbn [function_proto f_body f_imports] in *.
  rewrite Forall_forall in HF. pose proof (HF f Hfin u Hu dv Hdv) as Hh. apply has_In in Hh.
  apply policy_covers. apply in_or_app. now left.
Qed.
